#![feature(rustc_private)]
extern crate rustc_abi;
extern crate rustc_driver;
extern crate rustc_ast;
extern crate rustc_hir;
extern crate rustc_hir_pretty;
extern crate rustc_interface;
extern crate rustc_middle;
extern crate rustc_span;
extern crate rustc_data_structures;

use rustc_driver::Compilation;
use rustc_hir::def::DefKind;
use rustc_hir::def_id::{DefId, LOCAL_CRATE};
use rustc_middle::mir::{
    self, AggregateKind, BinOp, Body, Const, ConstValue, Operand, Place, ProjectionElem, Rvalue,
    StatementKind, TerminatorKind, UnOp,
};
use rustc_middle::ty::{self, TyCtxt};
use std::fmt::Write as _;

fn esc(s: &str) -> String {
    let mut o = String::with_capacity(s.len() + 2);
    o.push('"');
    for c in s.chars() {
        match c {
            '"' => o.push_str("\\\""),
            '\\' => o.push_str("\\\\"),
            '\n' => o.push_str("\\n"),
            '\t' => o.push_str("\\t"),
            '\r' => o.push_str("\\r"),
            c if (c as u32) < 0x20 => {
                let _ = write!(o, "\\u{:04x}", c as u32);
            }
            c => o.push(c),
        }
    }
    o.push('"');
    o
}

/// Is `krate` part of the analysed workspace (as opposed to std / a registry dependency)?  Decided by where its root module lives.
fn is_ws_crate<'tcx>(tcx: TyCtxt<'tcx>, krate: rustc_hir::def_id::CrateNum) -> bool {
    if krate == LOCAL_CRATE {
        return true;
    }
    let root = DefId { krate, index: rustc_hir::def_id::CRATE_DEF_INDEX };
    let sm = tcx.sess.source_map();
    let lo = sm.lookup_char_pos(tcx.def_span(root).lo());
    let f = format!("{}", lo.file.name.prefer_local_unconditionally());
    !(f.contains("/.cargo/registry/") || f.contains("/rustc/") || f.contains("/rustlib/") || f.contains("/registry/src/"))
}

/// rustc prints an item of an impl as `<T as Trait>::item` / `T::item` when the impl sits in the module of its type and as
/// `module::<impl Trait for T>::item` / `module::<impl T>::item` when it sits elsewhere (another file, a macro in the parent module).
/// Where an impl block is written is not a fact about the program: items of workspace crates are always named in the first form.
fn canon_impl_path(s: &str) -> String {
    let idx = match s.find("<impl ") {
        Some(i) => i,
        None => return s.to_string(),
    };
    if idx > 0 && !s[..idx].ends_with("::") {
        return s.to_string();
    }
    let b = s.as_bytes();
    let mut depth = 0i32;
    let mut end = None;
    let mut i = idx;
    while i < b.len() {
        match b[i] {
            b'<' => depth += 1,
            b'>' if i > 0 && b[i - 1] == b'-' => {}
            b'>' => {
                depth -= 1;
                if depth == 0 {
                    end = Some(i);
                    break;
                }
            }
            _ => {}
        }
        i += 1;
    }
    let end = match end {
        Some(e) => e,
        None => return s.to_string(),
    };
    let inner = &s[idx + 6..end];
    let suffix = &s[end + 1..];
    // " for " at nesting depth 0 separates trait and self type
    let ib = inner.as_bytes();
    let mut d = 0i32;
    let mut pos = None;
    let mut j = 0;
    while j < ib.len() {
        match ib[j] {
            b'<' | b'(' | b'[' => d += 1,
            b'>' if j > 0 && ib[j - 1] == b'-' => {}
            b'>' | b')' | b']' => d -= 1,
            b' ' if d == 0 && inner[j..].starts_with(" for ") => {
                pos = Some(j);
                break;
            }
            _ => {}
        }
        j += 1;
    }
    match pos {
        Some(p) => format!("<{} as {}>{}", &inner[p + 5..], &inner[..p], suffix),
        None => format!("{}{}", inner, suffix),
    }
}

fn qpath<'tcx>(tcx: TyCtxt<'tcx>, did: DefId) -> String {
    // crate-qualified path
    let k = tcx.crate_name(did.krate);
    let p = tcx.def_path_str(did);
    let rel = p.trim_start_matches(&format!("{}::", k));
    if rel.contains("<impl ") && is_ws_crate(tcx, did.krate) {
        return format!("{}::{}", k, canon_impl_path(rel));
    }
    format!("{}::{}", k, rel)
}

fn place_json<'tcx>(tcx: TyCtxt<'tcx>, body: &Body<'tcx>, p: &Place<'tcx>) -> String {
    let mut s = format!("{{\"l\":{},\"p\":[", p.local.as_usize());
    let mut first = true;
    for e in p.projection.iter() {
        if !first {
            s.push(',');
        }
        first = false;
        match e {
            ProjectionElem::Deref => s.push_str("\"*\""),
            ProjectionElem::Field(f, _) => {
                let _ = write!(s, "{{\"f\":{}}}", f.as_usize());
            }
            ProjectionElem::Index(l) => {
                let _ = write!(s, "{{\"idx\":{}}}", l.as_usize());
            }
            ProjectionElem::ConstantIndex { offset, min_length, from_end } => {
                let _ = write!(s, "{{\"cidx\":{},\"min\":{},\"end\":{}}}", offset, min_length, from_end);
            }
            ProjectionElem::Subslice { from, to, from_end } => {
                let _ = write!(s, "{{\"sub\":[{},{}],\"end\":{}}}", from, to, from_end);
            }
            ProjectionElem::Downcast(name, v) => {
                let _ = write!(
                    s,
                    "{{\"dc\":{},\"n\":{}}}",
                    v.as_usize(),
                    esc(&name.map(|n| n.to_string()).unwrap_or_default())
                );
            }
            other => {
                let _ = write!(s, "{{\"other\":{}}}", esc(&format!("{:?}", other)));
            }
        }
    }
    let _ = write!(s, "],\"ty\":{}}}", esc(&format!("{}", p.ty(&body.local_decls, tcx).ty)));
    s
}

fn const_json<'tcx>(tcx: TyCtxt<'tcx>, owner: DefId, c: &Const<'tcx>) -> String {
    let ty = c.ty();
    let mut s = format!("{{\"cty\":{}", esc(&format!("{}", ty)));
    if let ty::FnDef(d, args) = ty.kind() {
        let _ = write!(s, ",\"fn\":{},\"args\":{}", esc(&qpath(tcx, *d)), esc(&format!("{:?}", args)));
    }
    match c {
        Const::Unevaluated(u, _) => {
            let _ = write!(
                s,
                ",\"uneval\":{},\"promoted\":{}",
                esc(&qpath(tcx, u.def)),
                u.promoted.map(|p| p.as_usize() as i64).unwrap_or(-1)
            );
        }
        _ => {}
    }
    let env = ty::TypingEnv::post_analysis(tcx, owner);
    if let Ok(v) = c.eval(tcx, env, rustc_span::DUMMY_SP) {
        match v {
            ConstValue::Scalar(mir::interpret::Scalar::Int(i)) => {
                let _ = write!(s, ",\"int\":\"{}\",\"size\":{}", i.to_bits_unchecked(), i.size().bytes());
            }
            ConstValue::Scalar(mir::interpret::Scalar::Ptr(p, _)) => {
                let (prov, off) = p.prov_and_relative_offset();
                let aid = prov.alloc_id();
                match tcx.global_alloc(aid) {
                    mir::interpret::GlobalAlloc::Static(d) => {
                        let _ = write!(s, ",\"static\":{},\"off\":{}", esc(&qpath(tcx, d)), off.bytes());
                    }
                    mir::interpret::GlobalAlloc::Memory(a) => {
                        let a = a.inner();
                        let bytes = a.inspect_with_uninit_and_ptr_outside_interpreter(0..a.len());
                        if bytes.len() <= 256 {
                            let _ = write!(s, ",\"mem\":{:?},\"off\":{}", bytes, off.bytes());
                        } else {
                            let _ = write!(s, ",\"memlen\":{}", bytes.len());
                        }
                    }
                    other => {
                        let _ = write!(s, ",\"alloc\":{}", esc(&format!("{:?}", other)));
                    }
                }
            }
            ConstValue::ZeroSized => s.push_str(",\"zst\":true"),
            ConstValue::Slice { alloc_id, meta } => {
                if let mir::interpret::GlobalAlloc::Memory(a) = tcx.global_alloc(alloc_id) {
                    let a = a.inner();
                    let bytes = a.inspect_with_uninit_and_ptr_outside_interpreter(0..(meta as usize).min(a.len()));
                    let _ = write!(s, ",\"slice\":{:?}", bytes);
                }
            }
            ConstValue::Indirect { alloc_id, offset } => {
                if let mir::interpret::GlobalAlloc::Memory(a) = tcx.global_alloc(alloc_id) {
                    let a = a.inner();
                    if a.len() <= 256 {
                        let bytes = a.inspect_with_uninit_and_ptr_outside_interpreter(0..a.len());
                        let _ = write!(s, ",\"indirect\":{:?},\"off\":{}", bytes, offset.bytes());
                    }
                }
            }
        }
    }
    s.push('}');
    s
}

fn op_json<'tcx>(tcx: TyCtxt<'tcx>, owner: DefId, body: &Body<'tcx>, o: &Operand<'tcx>) -> String {
    match o {
        Operand::Copy(p) => format!("{{\"copy\":{}}}", place_json(tcx, body, p)),
        Operand::Move(p) => format!("{{\"move\":{}}}", place_json(tcx, body, p)),
        Operand::Constant(c) => format!("{{\"const\":{}}}", const_json(tcx, owner, &c.const_)),
        other => format!("{{\"op_other\":{}}}", esc(&format!("{:?}", other))),
    }
}

fn rv_json<'tcx>(tcx: TyCtxt<'tcx>, owner: DefId, body: &Body<'tcx>, rv: &Rvalue<'tcx>) -> String {
    match rv {
        Rvalue::Use(o, _) => format!("{{\"k\":\"use\",\"o\":{}}}", op_json(tcx, owner, body, o)),
        Rvalue::Ref(_, bk, p) => format!(
            "{{\"k\":\"ref\",\"mut\":{},\"p\":{}}}",
            matches!(bk, mir::BorrowKind::Mut { .. }),
            place_json(tcx, body, p)
        ),
        Rvalue::RawPtr(_, p) => format!("{{\"k\":\"rawptr\",\"p\":{}}}", place_json(tcx, body, p)),
        Rvalue::CopyForDeref(p) => format!("{{\"k\":\"use\",\"o\":{{\"copy\":{}}}}}", place_json(tcx, body, p)),
        Rvalue::Cast(ck, o, t) => format!(
            "{{\"k\":\"cast\",\"ck\":{},\"o\":{},\"to\":{}}}",
            esc(&format!("{:?}", ck)),
            op_json(tcx, owner, body, o),
            esc(&format!("{}", t))
        ),
        Rvalue::BinaryOp(op, ab) => format!(
            "{{\"k\":\"bin\",\"op\":{},\"a\":{},\"b\":{}}}",
            esc(&format!("{:?}", op)),
            op_json(tcx, owner, body, &ab.0),
            op_json(tcx, owner, body, &ab.1)
        ),
        Rvalue::UnaryOp(op, o) => format!(
            "{{\"k\":\"un\",\"op\":{},\"o\":{}}}",
            esc(&format!("{:?}", op)),
            op_json(tcx, owner, body, o)
        ),
        Rvalue::Discriminant(p) => format!("{{\"k\":\"discr\",\"p\":{}}}", place_json(tcx, body, p)),
        Rvalue::Aggregate(ak, ops) => {
            let kind = match &**ak {
                AggregateKind::Array(_) => "{\"agg\":\"array\"}".to_string(),
                AggregateKind::Tuple => "{\"agg\":\"tuple\"}".to_string(),
                AggregateKind::Adt(d, v, _, _, _) => {
                    let adt = tcx.adt_def(*d);
                    format!(
                        "{{\"agg\":\"adt\",\"def\":{},\"variant\":{},\"vname\":{}}}",
                        esc(&qpath(tcx, *d)),
                        v.as_usize(),
                        esc(&adt.variant(*v).name.to_string())
                    )
                }
                AggregateKind::Closure(d, _) => format!("{{\"agg\":\"closure\",\"def\":{}}}", esc(&qpath(tcx, *d))),
                other => format!("{{\"agg\":{}}}", esc(&format!("{:?}", other))),
            };
            let ops: Vec<String> = ops.iter().map(|o| op_json(tcx, owner, body, o)).collect();
            format!("{{\"k\":\"agg\",\"kind\":{},\"ops\":[{}]}}", kind, ops.join(","))
        }
        Rvalue::Repeat(o, n) => format!(
            "{{\"k\":\"repeat\",\"o\":{},\"n\":{}}}",
            op_json(tcx, owner, body, o),
            esc(&format!("{}", n))
        ),
        other => format!("{{\"k\":\"other\",\"dbg\":{}}}", esc(&format!("{:?}", other))),
    }
}

fn span_str<'tcx>(tcx: TyCtxt<'tcx>, sp: rustc_span::Span) -> String {
    let sm = tcx.sess.source_map();
    let lo = sm.lookup_char_pos(sp.lo());
    format!("{}:{}", lo.file.name.prefer_local_unconditionally(), lo.line)
}

fn body_json<'tcx>(tcx: TyCtxt<'tcx>, did: DefId, body: &Body<'tcx>, out: &mut String) {
    out.push_str("{\"locals\":[");
    for (i, d) in body.local_decls.iter().enumerate() {
        if i > 0 {
            out.push(',');
        }
        out.push_str(&esc(&format!("{}", d.ty)));
    }
    let _ = write!(out, "],\"argc\":{},\"debug\":{{", body.arg_count);
    let mut first = true;
    for v in &body.var_debug_info {
        if let mir::VarDebugInfoContents::Place(p) = &v.value {
            if !first {
                out.push(',');
            }
            first = false;
            let _ = write!(out, "{}:{}", esc(&v.name.to_string()), place_json(tcx, body, p));
        }
    }
    out.push_str("},\"blocks\":[");
    for (bb, data) in body.basic_blocks.iter_enumerated() {
        if bb.as_usize() > 0 {
            out.push(',');
        }
        let _ = write!(out, "{{\"cleanup\":{},\"stmts\":[", data.is_cleanup);
        let mut first = true;
        for st in &data.statements {
            let j = match &st.kind {
                StatementKind::Assign(b) => Some(format!(
                    "{{\"k\":\"assign\",\"lhs\":{},\"rv\":{},\"sp\":{},\"exp\":{}}}",
                    place_json(tcx, body, &b.0),
                    rv_json(tcx, did, body, &b.1),
                    esc(&span_str(tcx, st.source_info.span)),
                    st.source_info.span.from_expansion()
                )),
                StatementKind::SetDiscriminant { place, variant_index } => Some(format!(
                    "{{\"k\":\"setdiscr\",\"lhs\":{},\"v\":{}}}",
                    place_json(tcx, body, place),
                    variant_index.as_usize()
                )),
                StatementKind::StorageLive(_)
                | StatementKind::StorageDead(_)
                | StatementKind::Nop
                | StatementKind::FakeRead(_)
                | StatementKind::PlaceMention(_)
                | StatementKind::AscribeUserType(..)
                | StatementKind::Coverage(_)
                | StatementKind::ConstEvalCounter
                | StatementKind::BackwardIncompatibleDropHint { .. } => None,
                other => Some(format!("{{\"k\":\"other\",\"dbg\":{}}}", esc(&format!("{:?}", other)))),
            };
            if let Some(j) = j {
                if !first {
                    out.push(',');
                }
                first = false;
                out.push_str(&j);
            }
        }
        out.push_str("],\"term\":");
        let term = data.terminator();
        let sp = esc(&span_str(tcx, term.source_info.span));
        let exp = term.source_info.span.from_expansion();
        match &term.kind {
            TerminatorKind::Goto { target } => {
                let _ = write!(out, "{{\"k\":\"goto\",\"t\":{}}}", target.as_usize());
            }
            TerminatorKind::SwitchInt { discr, targets } => {
                let _ = write!(out, "{{\"k\":\"switch\",\"d\":{},\"t\":[", op_json(tcx, did, body, discr));
                let mut f = true;
                for (v, t) in targets.iter() {
                    if !f {
                        out.push(',');
                    }
                    f = false;
                    let _ = write!(out, "[\"{}\",{}]", v, t.as_usize());
                }
                let _ = write!(out, "],\"else\":{}}}", targets.otherwise().as_usize());
            }
            TerminatorKind::Return => out.push_str("{\"k\":\"return\"}"),
            TerminatorKind::Unreachable => out.push_str("{\"k\":\"unreachable\"}"),
            TerminatorKind::UnwindResume => out.push_str("{\"k\":\"resume\"}"),
            TerminatorKind::Drop { place, target, .. } => {
                let _ = write!(out, "{{\"k\":\"drop\",\"p\":{},\"t\":{}}}", place_json(tcx, body, place), target.as_usize());
            }
            TerminatorKind::Assert { cond, expected, msg, target, .. } => {
                let _ = write!(
                    out,
                    "{{\"k\":\"assert\",\"c\":{},\"exp\":{},\"msg\":{},\"t\":{},\"sp\":{}}}",
                    op_json(tcx, did, body, cond),
                    expected,
                    esc(&format!("{:?}", msg)),
                    target.as_usize(),
                    sp
                );
            }
            TerminatorKind::Call { func, args, destination, target, .. } => {
                let fty = func.ty(&body.local_decls, tcx);
                let (callee, resolved, gargs) = if let ty::FnDef(cd, ga) = fty.kind() {
                    let env = ty::TypingEnv::post_analysis(tcx, did);
                    let res = ty::Instance::try_resolve(tcx, env, *cd, ga);
                    let r = match res {
                        Ok(Some(i)) => qpath(tcx, i.def_id()),
                        _ => String::new(),
                    };
                    (qpath(tcx, *cd), r, format!("{:?}", ga))
                } else {
                    (String::from("<indirect>"), String::new(), format!("{}", fty))
                };
                let a: Vec<String> = args.iter().map(|o| op_json(tcx, did, body, &o.node)).collect();
                // a call through a function pointer: the operand that holds the pointer (a fn item passed by the caller of an inlined helper)
                let fop = if matches!(fty.kind(), ty::FnDef(..)) { String::new() } else { format!(",\"fop\":{}", op_json(tcx, did, body, func)) };
                let _ = write!(
                    out,
                    "{{\"k\":\"call\",\"f\":{},\"r\":{},\"ga\":{},\"args\":[{}],\"dest\":{},\"t\":{},\"sp\":{},\"exp\":{}{}}}",
                    esc(&callee),
                    esc(&resolved),
                    esc(&gargs),
                    a.join(","),
                    place_json(tcx, body, destination),
                    target.map(|t| t.as_usize() as i64).unwrap_or(-1),
                    sp,
                    exp,
                    fop
                );
            }
            other => {
                let _ = write!(out, "{{\"k\":\"other\",\"dbg\":{}}}", esc(&format!("{:?}", other)));
            }
        }
        out.push('}');
    }
    out.push_str("]}");
}


fn lit_tree<'tcx>(tcx: TyCtxt<'tcx>, e: &rustc_hir::Expr<'tcx>, out: &mut String) {
    use rustc_hir::ExprKind;
    match &e.kind {
        ExprKind::Array(es) | ExprKind::Tup(es) => {
            out.push('[');
            for (i, x) in es.iter().enumerate() {
                if i > 0 { out.push(','); }
                lit_tree(tcx, x, out);
            }
            out.push(']');
        }
        ExprKind::Lit(l) => match l.node {
            rustc_ast::LitKind::Int(n, _) => { let _ = write!(out, "\"{}\"", n.get()); }
            rustc_ast::LitKind::Str(s, _) => out.push_str(&esc(s.as_str())),
            rustc_ast::LitKind::Bool(b) => { let _ = write!(out, "{}", b); }
            _ => out.push_str("{\"lit\":\"other\"}"),
        },
        ExprKind::Call(f, args) => {
            let name = if let ExprKind::Path(qp) = &f.kind { rustc_hir_pretty::qpath_to_string(&tcx, qp) } else { String::from("?") };
            let _ = write!(out, "{{\"call\":{},\"args\":[", esc(&name));
            for (i, x) in args.iter().enumerate() {
                if i > 0 { out.push(','); }
                lit_tree(tcx, x, out);
            }
            out.push_str("]}");
        }
        ExprKind::Path(qp) => { let _ = write!(out, "{{\"path\":{}}}", esc(&rustc_hir_pretty::qpath_to_string(&tcx, qp))); }
        ExprKind::AddrOf(_, _, x) | ExprKind::DropTemps(x) | ExprKind::Cast(x, _) => lit_tree(tcx, x, out),
        ExprKind::Block(b, _) if b.stmts.is_empty() && b.expr.is_some() => lit_tree(tcx, b.expr.unwrap(), out),
        _ => out.push_str("{\"nonliteral\":true}"),
    }
}


fn ty_str<'tcx>(t: ty::Ty<'tcx>) -> String {
    format!("{}", t)
}

fn sig_json<'tcx>(tcx: TyCtxt<'tcx>, did: DefId, out: &mut String) {
    let sig = tcx.fn_sig(did).instantiate_identity().skip_norm_wip().skip_binder();
    out.push_str("{\"inputs\":[");
    for (i, t) in sig.inputs().iter().enumerate() {
        if i > 0 {
            out.push(',');
        }
        out.push_str(&esc(&ty_str(*t)));
    }
    let _ = write!(out, "],\"output\":{},\"unsafe\":{}", esc(&ty_str(sig.output())), !sig.safety().is_safe());
    // predicates (bounds) as strings
    out.push_str(",\"bounds\":[");
    let preds = tcx.predicates_of(did).instantiate_identity(tcx);
    let mut first = true;
    for p in preds.predicates.iter() {
        if !first {
            out.push(',');
        }
        first = false;
        out.push_str(&esc(&format!("{:?}", p)));
    }
    out.push_str("]}");
}

fn parent_impl_json<'tcx>(tcx: TyCtxt<'tcx>, did: DefId) -> String {
    // walk up through closures to the enclosing fn
    let mut d = did;
    while matches!(tcx.def_kind(d), DefKind::Closure) {
        d = tcx.parent(d);
    }
    let par = tcx.parent(d);
    if let DefKind::Impl { of_trait } = tcx.def_kind(par) {
        let selfty = ty_str(tcx.type_of(par).instantiate_identity().skip_norm_wip());
        let tr = if of_trait {
            let r = tcx.impl_trait_ref(par).instantiate_identity().skip_norm_wip();
            format!("{:?}", r)
        } else {
            String::new()
        };
        let trd = if of_trait {
            qpath(tcx, tcx.impl_trait_ref(par).instantiate_identity().skip_norm_wip().def_id)
        } else {
            String::new()
        };
        format!(
            "{{\"impl\":{},\"self_ty\":{},\"trait\":{},\"trait_def\":{},\"derived\":{}}}",
            esc(&qpath(tcx, par)),
            esc(&selfty),
            esc(&tr),
            esc(&trd),
            tcx.is_automatically_derived(par)
        )
    } else {
        "null".to_string()
    }
}

fn res_name<'tcx>(tcx: TyCtxt<'tcx>, res: rustc_hir::def::Res) -> String {
    match res {
        rustc_hir::def::Res::Def(_, d) => qpath(tcx, d),
        other => format!("{:?}", other),
    }
}

fn lit_tree2<'tcx>(tcx: TyCtxt<'tcx>, owner: rustc_hir::def_id::LocalDefId, e: &rustc_hir::Expr<'tcx>, out: &mut String) {
    use rustc_hir::ExprKind;
    let tr = tcx.typeck(owner);
    match &e.kind {
        ExprKind::Array(es) | ExprKind::Tup(es) => {
            out.push('[');
            for (i, x) in es.iter().enumerate() {
                if i > 0 {
                    out.push(',');
                }
                lit_tree2(tcx, owner, x, out);
            }
            out.push(']');
        }
        ExprKind::Lit(l) => match l.node {
            rustc_ast::LitKind::Int(n, _) => {
                let _ = write!(out, "\"{}\"", n.get());
            }
            rustc_ast::LitKind::Str(s, _) => out.push_str(&esc(s.as_str())),
            rustc_ast::LitKind::Bool(b) => {
                let _ = write!(out, "{}", b);
            }
            _ => out.push_str("{\"lit\":\"other\"}"),
        },
        ExprKind::Call(f, args) => {
            let name = if let ExprKind::Path(qp) = &f.kind {
                res_name(tcx, tr.qpath_res(qp, f.hir_id))
            } else {
                String::from("?")
            };
            let _ = write!(out, "{{\"call\":{},\"args\":[", esc(&name));
            for (i, x) in args.iter().enumerate() {
                if i > 0 {
                    out.push(',');
                }
                lit_tree2(tcx, owner, x, out);
            }
            out.push_str("]}");
        }
        ExprKind::Path(qp) => {
            let _ = write!(out, "{{\"path\":{}}}", esc(&res_name(tcx, tr.qpath_res(qp, e.hir_id))));
        }
        ExprKind::Unary(rustc_hir::UnOp::Neg, x) => {
            out.push_str("{\"neg\":");
            lit_tree2(tcx, owner, x, out);
            out.push('}');
        }
        ExprKind::AddrOf(_, _, x) | ExprKind::DropTemps(x) | ExprKind::Cast(x, _) => lit_tree2(tcx, owner, x, out),
        ExprKind::Block(b, _) if b.stmts.is_empty() && b.expr.is_some() => lit_tree2(tcx, owner, b.expr.unwrap(), out),
        _ => out.push_str("{\"nonliteral\":true}"),
    }
}

struct Cb {
    tag: String,
    cfgs: Vec<String>,
    crate_type: String,
}

impl rustc_driver::Callbacks for Cb {
    fn after_analysis<'tcx>(&mut self, _c: &rustc_interface::interface::Compiler, tcx: TyCtxt<'tcx>) -> Compilation {
        let dir = match std::env::var("FACTGEN_OUT") {
            Ok(d) => d,
            Err(_) => return Compilation::Continue,
        };
        let krate = tcx.crate_name(LOCAL_CRATE).to_string();
        if let Ok(only) = std::env::var("FACTGEN_CRATES") {
            if !only.split(',').any(|c| c == krate) {
                return Compilation::Continue;
            }
        }
        let mut out = String::from("{\"crate\":");
        out.push_str(&esc(&krate));
        let _ = write!(out, ",\"crate_type\":{},\"cfgs\":[", esc(&self.crate_type));
        for (i, c) in self.cfgs.iter().enumerate() {
            if i > 0 {
                out.push(',');
            }
            out.push_str(&esc(c));
        }
        out.push_str("],\"bodies\":{");
        let mut first = true;
        for ldid in tcx.mir_keys(()) {
            let did = ldid.to_def_id();
            let kind = tcx.def_kind(did);
            // functions, methods, closures - and the initialisers of named constants (a `const X: T = unsafe { T::from_raw_unchecked(..) }`
            // is code, too; statics are data and are read as literal trees below)
            let is_const = matches!(kind, DefKind::Const { .. } | DefKind::AssocConst { .. });
            if !matches!(kind, DefKind::Fn | DefKind::AssocFn | DefKind::Closure) && !is_const {
                continue;
            }
            if !first {
                out.push(',');
            }
            first = false;
            let vis = if matches!(kind, DefKind::Fn | DefKind::AssocFn) {
                format!("{:?}", tcx.visibility(did))
            } else {
                String::new()
            };
            let eff = tcx.effective_visibilities(()).is_reachable(*ldid);
            let _ = write!(
                out,
                "{}:{{\"kind\":{},\"vis\":{},\"reach\":{},\"span\":{},\"derived\":{},\"parent\":{},\"impl\":{},\"const\":{},\"sig\":",
                esc(&qpath(tcx, did)),
                esc(&format!("{:?}", kind)),
                esc(&vis),
                eff,
                esc(&span_str(tcx, tcx.def_span(did))),
                tcx.def_span(did).from_expansion(),
                esc(&qpath(tcx, tcx.parent(did))),
                parent_impl_json(tcx, did),
                matches!(kind, DefKind::Fn | DefKind::AssocFn) && tcx.is_const_fn(did)
            );
            if matches!(kind, DefKind::Fn | DefKind::AssocFn) {
                sig_json(tcx, did, &mut out);
            } else {
                out.push_str("null");
            }
            out.push_str(",\"mir\":");
            let body = if is_const { tcx.mir_for_ctfe(did) } else { tcx.optimized_mir(did) };
            body_json(tcx, did, body, &mut out);
            out.push_str(",\"promoted\":[");
            let proms = tcx.promoted_mir(did);
            for (i, pb) in proms.iter().enumerate() {
                if i > 0 {
                    out.push(',');
                }
                body_json(tcx, did, pb, &mut out);
            }
            out.push_str("]}");
        }
        out.push_str("},\"data\":{");
        let mut first = true;
        for id in tcx.hir_free_items() {
            let item = tcx.hir_item(id);
            let body = match &item.kind {
                rustc_hir::ItemKind::Static(_, _, _, b) => *b,
                rustc_hir::ItemKind::Const(_, _, _, rustc_hir::ConstItemRhs::Body(b)) => *b,
                _ => continue,
            };
            if !first {
                out.push(',');
            }
            first = false;
            let did = item.owner_id.to_def_id();
            let _ = write!(
                out,
                "{}:{{\"ty\":{},\"kind\":{},\"span\":{},\"v\":",
                esc(&qpath(tcx, did)),
                esc(&ty_str(tcx.type_of(did).instantiate_identity().skip_norm_wip())),
                esc(&format!("{:?}", tcx.def_kind(did))),
                esc(&span_str(tcx, item.span))
            );
            lit_tree2(tcx, item.owner_id.def_id, tcx.hir_body(body).value, &mut out);
            // second reading for arrays of primitive integers: the const-evaluated value (the compiler's own evaluation of the initialiser,
            // so that `[u32::from_le_bytes(*b"Mong")]` and `[1735290701]` are the same fact)
            let tys = ty_str(tcx.type_of(did).instantiate_identity().skip_norm_wip());
            let esz: usize = if tys.starts_with("[u8;") || tys.starts_with("[i8;") { 1 }
                else if tys.starts_with("[u16;") || tys.starts_with("[i16;") { 2 }
                else if tys.starts_with("[u32;") || tys.starts_with("[i32;") { 4 }
                else if tys.starts_with("[u64;") || tys.starts_with("[i64;") || tys.starts_with("[usize;") { 8 }
                else if tys.starts_with("[u128;") { 16 } else { 0 };
            if esz > 0 {
                let mut bytes: Option<Vec<u8>> = None;
                if matches!(tcx.def_kind(did), DefKind::Static { .. }) {
                    if let Ok(a) = tcx.eval_static_initializer(did) {
                        let a = a.inner();
                        bytes = Some(a.inspect_with_uninit_and_ptr_outside_interpreter(0..a.len()).to_vec());
                    }
                } else if let Ok(v) = tcx.const_eval_poly(did) {
                    if let ConstValue::Indirect { alloc_id, offset } = v {
                        if let mir::interpret::GlobalAlloc::Memory(a) = tcx.global_alloc(alloc_id) {
                            let a = a.inner();
                            let off = offset.bytes() as usize;
                            if off <= a.len() {
                                bytes = Some(a.inspect_with_uninit_and_ptr_outside_interpreter(off..a.len()).to_vec());
                            }
                        }
                    }
                }
                if let Some(b) = bytes {
                    if b.len() % esz == 0 && b.len() / esz <= 100000 {
                        out.push_str(",\"ev\":[");
                        for (i, ch) in b.chunks(esz).enumerate() {
                            if i > 0 { out.push(','); }
                            let mut n: u128 = 0;
                            for (k, x) in ch.iter().enumerate() { n |= (*x as u128) << (8 * k); }
                            let _ = write!(out, "\"{}\"", n);
                        }
                        out.push(']');
                    }
                }
            }
            out.push('}');
        }
        out.push_str("},\"adts\":{");
        let mut first = true;
        for id in tcx.hir_free_items() {
            let item = tcx.hir_item(id);
            if !matches!(item.kind, rustc_hir::ItemKind::Struct(..) | rustc_hir::ItemKind::Enum(..)) {
                continue;
            }
            let did = item.owner_id.to_def_id();
            let adt = tcx.adt_def(did);
            if !first {
                out.push(',');
            }
            first = false;
            let _ = write!(
                out,
                "{}:{{\"kind\":{},\"vis\":{},\"reach\":{},\"span\":{},\"variants\":[",
                esc(&qpath(tcx, did)),
                esc(if adt.is_enum() { "enum" } else { "struct" }),
                esc(&format!("{:?}", tcx.visibility(did))),
                tcx.effective_visibilities(()).is_reachable(item.owner_id.def_id),
                esc(&span_str(tcx, item.span))
            );
            for (vi, v) in adt.variants().iter().enumerate() {
                if vi > 0 {
                    out.push(',');
                }
                let _ = write!(out, "{{\"name\":{},\"fields\":[", esc(&v.name.to_string()));
                for (fi, f) in v.fields.iter().enumerate() {
                    if fi > 0 {
                        out.push(',');
                    }
                    let _ = write!(
                        out,
                        "{{\"name\":{},\"ty\":{},\"vis\":{}}}",
                        esc(&f.name.to_string()),
                        esc(&ty_str(tcx.type_of(f.did).instantiate_identity().skip_norm_wip())),
                        esc(&format!("{:?}", f.vis))
                    );
                }
                out.push_str("]}");
            }
            out.push_str("]}");
        }
        out.push_str("},\"impls\":[");
        let mut first = true;
        for id in tcx.hir_free_items() {
            let item = tcx.hir_item(id);
            if !matches!(item.kind, rustc_hir::ItemKind::Impl(..)) {
                continue;
            }
            let did = item.owner_id.to_def_id();
            let of_trait = matches!(tcx.def_kind(did), DefKind::Impl { of_trait: true });
            if !first {
                out.push(',');
            }
            first = false;
            let (tr, trd) = if of_trait {
                let r = tcx.impl_trait_ref(did).instantiate_identity().skip_norm_wip();
                (format!("{:?}", r), qpath(tcx, r.def_id))
            } else {
                (String::new(), String::new())
            };
            let _ = write!(
                out,
                "{{\"def\":{},\"self_ty\":{},\"trait\":{},\"trait_def\":{},\"derived\":{},\"span\":{},\"items\":[",
                esc(&qpath(tcx, did)),
                esc(&ty_str(tcx.type_of(did).instantiate_identity().skip_norm_wip())),
                esc(&tr),
                esc(&trd),
                tcx.is_automatically_derived(did),
                esc(&span_str(tcx, item.span))
            );
            for (i, a) in tcx.associated_item_def_ids(did).iter().enumerate() {
                if i > 0 {
                    out.push(',');
                }
                out.push_str(&esc(&qpath(tcx, *a)));
            }
            out.push_str("]}");
        }
        out.push_str("],\"root_children\":[");
        let mut first = true;
        for ch in tcx.module_children_local(rustc_hir::def_id::CRATE_DEF_ID) {
            if !first {
                out.push(',');
            }
            first = false;
            let _ = write!(
                out,
                "{{\"name\":{},\"res\":{},\"vis\":{},\"reexport\":{}}}",
                esc(&ch.ident.to_string()),
                esc(&match ch.res {
                    rustc_hir::def::Res::Def(k, d) => format!("{:?}:{}", k, qpath(tcx, d)),
                    other => format!("{:?}", other),
                }),
                esc(&format!("{:?}", ch.vis)),
                !ch.reexport_chain.is_empty()
            );
        }
        out.push_str("]}");
        std::fs::create_dir_all(&dir).unwrap();
        std::fs::write(format!("{}/{}-{}.json", dir, krate, self.tag), out).unwrap();
        Compilation::Continue
    }
}

fn main() {
    let mut args: Vec<String> = std::env::args().collect();
    // wrapper convention: argv[1] is the real rustc
    if args.len() > 1 && (args[1].ends_with("rustc") || args[1].contains("/rustc")) {
        args.remove(1);
    }
    let mut meta = String::from("nometa");
    let mut emit = String::from("noemit");
    let mut cfgs = vec![];
    let mut crate_type = String::new();
    let mut test = false;
    let mut i = 0;
    while i < args.len() {
        let a = &args[i];
        if a == "-C" && i + 1 < args.len() && args[i + 1].starts_with("metadata=") {
            meta = args[i + 1]["metadata=".len()..].to_string();
        } else if a.starts_with("-Cmetadata=") {
            meta = a["-Cmetadata=".len()..].to_string();
        } else if a.starts_with("--emit=") {
            emit = a["--emit=".len()..].replace(',', "+");
        } else if a == "--cfg" && i + 1 < args.len() {
            cfgs.push(args[i + 1].clone());
        } else if a == "--crate-type" && i + 1 < args.len() {
            crate_type = args[i + 1].clone();
        } else if a == "--test" {
            test = true;
        }
        i += 1;
    }
    let tag = format!("{}-{}{}", meta, emit, if test { "-test" } else { "" });
    let mut cb = Cb { tag, cfgs, crate_type };
    rustc_driver::run_compiler(&args, &mut cb);
}
