#!/usr/bin/env python3
"""debug aid: tools/pxdump.py <config> <fn substring> [--mir] [--events] — prints PX segments of a body."""
import os
import sys

sys.path.insert(0, os.path.dirname(os.path.dirname(os.path.abspath(__file__))))
from sa import facts, px as pxm, mirpp  # noqa: E402


def main():
    cfg, needle = sys.argv[1], sys.argv[2]
    prog = pxm.Program(facts.load(cfg))
    names = [n for n in prog.bodies if needle in n]
    if '--list' in sys.argv:
        for n in sorted(names):
            b = prog.bodies[n]
            print(n, b['kind'], b.get('sig') and b['sig']['inputs'], '->', b.get('sig') and b['sig']['output'])
        return
    exact = [n for n in names if n.endswith(needle)]
    if exact:
        names = exact
    for n in sorted(names)[:int(os.environ.get('N', '3'))]:
        print('=' * 30, n)
        if '--mir' in sys.argv:
            try:
                print(mirpp.render(prog.bodies[n]['mir']))
            except Exception as ex:
                print('mirpp failed', ex)
        e = pxm.PX(prog, inline_loops='--inline-loops' in sys.argv)
        segs = e.explore(n)
        for s in segs:
            print('--', s.kind, e.fmt(s.src)[:80], '->', e.fmt(s.dst)[:80])
            if s.ret is not None:
                print('   ret:', e.short(s.ret, 400))
            fs = {e.short(k, 200): v for k, v in s.state.facts.items()}
            print('   facts:', fs)
            for sj, shp in s.state.shapes.items():
                print('   shape', e.fmt(sj), shp.describe()[:200])
            if '--events' in sys.argv:
                for ev in s.events:
                    print('     ev', ev[0], ' '.join(e.short(x, 160) if isinstance(x, tuple) else str(x) for x in ev[1:5]))
        print('unmodelled:', e.unmodelled)
        print('undecided:', e.undecided)


main()
