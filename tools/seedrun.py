#!/usr/bin/env python3
"""tools/seedrun.py <seed id | patch file> [Cxx ...]   — applies a seeded change to /repo, runs the named checks (default: the
property named in meta.json), and restores /repo straight afterwards.  Prints which checks fired.  Evidence files are restored too."""
import json
import os
import subprocess
import sys

VERIF = os.path.dirname(os.path.dirname(os.path.abspath(__file__)))
REPO = '/repo'


def main():
    arg = sys.argv[1]
    props = [a for a in sys.argv[2:] if not a.startswith('-')]
    verbose = '-v' in sys.argv
    if os.path.isdir(os.path.join(VERIF, 'seeded', arg)):
        d = os.path.join(VERIF, 'seeded', arg)
        patch = os.path.join(d, 'patch.diff')
        if not props:
            props = [json.load(open(os.path.join(d, 'meta.json')))['property']]
    else:
        patch = arg
    st = subprocess.run(['git', '-C', REPO, 'status', '--porcelain', '--untracked-files=no'], capture_output=True, text=True).stdout.strip()
    if st:
        print('REFUSING: /repo has uncommitted changes:\n' + st)
        return 2
    r = subprocess.run(['git', '-C', REPO, 'apply', patch], capture_output=True, text=True)
    if r.returncode != 0:
        print('patch does not apply: ' + r.stderr)
        return 2
    results = {}
    try:
        for p in props:
            r = subprocess.run([os.path.join(VERIF, 'check'), p, '--tier', 'quick'], cwd=VERIF, capture_output=True, text=True)
            fired = r.returncode == 1 and 'VIOLATION property=%s' % p in r.stdout
            results[p] = 'FIRED' if fired else ('silent' if r.returncode == 0 else 'exit %d' % r.returncode)
            if verbose or not fired:
                print(r.stdout[-3000:] if verbose else r.stdout[-800:])
                if r.returncode not in (0, 1):
                    print(r.stderr[-1500:])
            else:
                for l in r.stdout.splitlines():
                    if l.startswith('  VIOLATED') or l.startswith('VIOLATION'):
                        print(l[:260])
    finally:
        subprocess.run(['git', '-C', REPO, 'checkout', '--', '.'], check=True)
        subprocess.run(['git', '-C', VERIF, 'checkout', '--', 'evidence'], capture_output=True)
    print('RESULT %s: %s' % (os.path.basename(os.path.dirname(patch)) if patch.endswith('patch.diff') else patch, results))
    return 0


sys.exit(main())
