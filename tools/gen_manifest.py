#!/usr/bin/env python3
"""Regenerates /verif/MANIFEST.json from the table below (kept in one place so the manifest is always valid)."""
import json
import os

HERE = os.path.dirname(os.path.dirname(os.path.abspath(__file__)))

CHECKS = {
    'C01': dict(level='proof', technique='call-graph reachability + path-sensitive abstract interpretation of MIR (panic-site discharge), CFG progress rule for loops, SCC recursion check',
                text='Proof over all inputs of the structural obligations that make the calls total: every panic-capable site reachable from a derived '
                     'text-accepting or likely-subtags entry point is shown unreachable on every abstract path (bounds by byte-string shape, index from binary '
                     'search on the same table/vector, unwrap by table data), every loop cycle consumes from a finite iterator created outside it, the call graph is acyclic, '
                     'every external callee has a totality summary, no Display impl constructs fmt::Error. Configurations K0 and likelysubtags.',
                note='Trusted: totality of std/tinystr functions as classified in sa/models.py; allocation failure out of scope; caller-supplied AsRef/Iterator impls are total and finite.',
                design='4.1'),
    'C15': dict(level='proof', technique='abstract interpretation of validator MIR over an exact byte-string shape domain (custom rustc_private driver + Python engines)',
                text='Proof over all byte strings: for each of Language/Script/Region/Variant::from_bytes (and FromStr, TryFrom) the union of abstract '
                     'states at accepting returns equals the UTS #35 production (both inclusions), the payload is the input under the specified case transform, '
                     '"und" is the empty language, the error constant is the specified one; as_str/Display/PartialEq<str> read only the stored text.',
                note='Trusted: rustc MIR, the factgen printer, summaries of tinystr 0.7.6 / std in sa/models.py, spec/shapes.json. No execution of the library.',
                design='4.15'),
}

CHECKS.update({
    'C18': dict(level='proof', technique='data rules over the type-checked HIR initialisers of the statics vs an independent re-derivation from the CLDR JSON (custom rustc_private driver)',
                text='Exhaustive proof over every row of the six likely-subtags tables and every element of the four direction constants: bijection with the CLDR keys, '
                     'values, strict order under the comparator of the binary search, declared lengths, little-endian decode of every integer to a well-formed canonical subtag '
                     '(byte order taken from the analysed from_raw_unchecked), CLDR version.',
                note='Trusted: rustc HIR of the initialisers (read by the driver), the checker-side reader/encoder of CLDR identifiers (written from UTS #35). Generators are not re-run.',
                design='4.18'),
    'C20': dict(level='translation_validation', technique='cross-configuration comparison of canonical MIR, items, impls, statics and re-export surface per feature set',
                text='For each crate and feature set (quick: none/likelysubtags/serde/all; thorough: all subsets on impl and facade crates) every body, type, impl, static and root item '
                     'of the base build is identical in the build with the feature; only additions are allowed; single named exception character_direction.',
                note='Assumes identical opt-level-0 MIR implies identical behaviour; dependency feature unification (tinystr/serde internals) is not analysed.',
                design='4.20'),
})

CHECKS.update({
    'C06': dict(level='proof', technique='data rules on the compiled tables (exhaustive) + decision-list extraction from the MIR of maximize by path-sensitive abstract interpretation, compared with the specified cascade',
                text='Proof by composition: every row of the six tables equals the CLDR entry and each table is strictly sorted in the order its binary search uses (exhaustive data rules); '
                     'the lookup cascade read from the MIR of likelysubtags::maximize equals the decision list of the property for all 8 presence patterns (table, key parameters, byte order, '
                     'width, column order, extractor projection, first hit returned, row value decoded, given subtags kept, "unchanged" exactly when full or all miss); integer encoders/decoders are '
                     'inverse; LanguageIdentifier::maximize writes the triple back.',
                note='Trusted: std binary_search_by_key / Option combinators, rustc MIR, the factgen printer, the checker-side CLDR reader. The UTS #35 fallbacks the property leaves open are the "unchanged" default.',
                design='4.6'),
    'C07': dict(level='proof', technique='decision-list extraction from MIR (origins of each result component per path) + table completeness data rule + write-set analysis of the method',
                text='Proof of the structural obligations from which the algebraic laws follow for any table contents: on every hit path each result component is the caller\'s own subtag or the '
                     'found row\'s component and a given subtag outside the key is never replaced; key components agree with the row (data); every row value has all three components; all-present '
                     'input returns "unchanged" before any lookup; the method writes exactly language/script/region, only on success, returns true exactly then; no Locale-level code writes extensions.',
                note='Trusted: std Option combinators; rustc MIR; the factgen printer.',
                design='4.7'),
    'C08': dict(level='proof', technique='decision-list extraction from the MIR of minimize with maximize as an uninterpreted pure function (path-sensitive abstract interpretation), purity and write-set rules',
                text='Proof of structural obligations S1-S7 (DESIGN 4.8) on every path of likelysubtags::minimize: max := input if full else maximize(input)?; trials (l), (l,r), (l,s) over components '
                     'of max only, in that order; a form is returned only under maximize(form) == Some(max) and is exactly that trial; "unchanged" only after all applicable trials failed; maximize is pure; '
                     'the method writes only language/script/region on success and nothing otherwise. The laws of the property are consequences of S1-S7 for any table contents.',
                note='"never lengthens" is decided as the number of script/region subtags (trial forms are sub-forms of the maximized identifier); string length of the language subtag is data. Trusted: derived PartialEq on tuples.',
                design='4.8'),
    'C11': dict(level='proof', technique='symbolic truth tables: path-sensitive exploration of the matches bodies (callees inlined), each path compared with the wildcard formula under every completion of its partial valuation',
                text='Proof over all operand pairs and flag pairs: every decision path of LanguageIdentifier::matches, Language::matches and the private helpers returns what the formula '
                     'AND_f((ra & empty_a[f]) | (rb & empty_b[f]) | a[f]==b[f]) gives over the four fields; Locale::matches is false when either private list is non-empty and otherwise exactly '
                     'id.matches(other.id, flags) with no other input read; AsRef impls return self / the embedded id.',
                note='Trusted: derived PartialEq on Option/Box<[T]> is structural equality; Some(empty list) treated as empty (never occurs).',
                design='4.11'),
    'C14': dict(level='proof', technique='data rules on the direction constants + decision-list extraction from the MIR of character_direction, applied by the checker to the CLDR layout data with a checker-side model of maximize',
                text='Proof (exhaustive over the data): the four direction constants equal the sets derivable from the 710 layout files and are pairwise disjoint; character_direction is a decision list of '
                     'interpretable atoms in both configurations and never reads variants; applying that list (with a dictionary model of maximize from likelySubtags.json) yields CLDR characterOrder for '
                     'every layout locale with likelysubtags, and without it differs only for script-less identifiers of multi-direction languages; a listed script decides alone; unlisted script + never-RTL '
                     'language is LTR; RTL languages x every region follow the likely-script refinement.',
                note='The model of maximize used for the refinement is the cascade that C06 proves of the code. Quick tier samples the likely-subtags language universe (all layout languages + every 25th); thorough uses all.',
                design='4.14'),
})

CHECKS.update({
    'C10': dict(level='other', technique='collection typestate analysis (sorted / duplicate-free / single empty representation) over MIR paths, error-atomicity path rule, shape-domain check of every inserted value, abstract-effect comparison per mutator',
                text='Decides the structural necessary conditions the set/map model equivalence rests on, on every path of every &mut self method, constructor and validating getter: invariant fields '
                     '(variants, attributes, private tags) are left sorted / duplicate-free / None-when-empty at every exit; binary searches only on sorted fields; no write to self precedes an Err return; '
                     'every inserted key, value, attribute or tag is the argument validated against the exact production and normalised as the parser does; rejected arguments lie outside the production; '
                     'each public mutator has the abstract effect (insert one, remove one at the found position, clear, map insert/remove, assign) of the model operation. It does not decide step-by-step '
                     'agreement of concrete histories with a reference model.',
                note='Breaking any of these breaks the behaviour on some history (necessary conditions); their conjunction is argued, not proven, to imply the model equivalence. Trusted: std Vec/BTreeMap/slice contracts. '
                     'Exempt: from_raw_parts_unchecked constructors (documented caller contract).',
                design='4.10'),
})

CHECKS.update({
    'C12': dict(level='other', technique='item-level rules over the type-checked program (derived-impl inventory, field declaration order, who-may-write scan) + typestate and validator abstract interpretation for uniqueness of the representation',
                text='Decides the structural preconditions of "x == y iff equal canonical strings; Eq/Ord/Hash consistent; order is field-wise": all 50 comparison/hash impls of the ten value types are the '
                     'derived ones (no hand-written impl can disagree); fields are declared in the order the property states; the representation behind a canonical string is unique (sorted, duplicate-free '
                     'collections, None for no variants, None for any case of "und", case normalised at construction, fields that Display does not print are never written); == &str compares the whole '
                     'canonical string. The iff on concrete pairs is not executed.',
                note='Necessary conditions (each, if broken, breaks the property on some pair). Injectivity of Display on canonical representations is the disjointness clause of C05. Trusted: semantics of derive (std).',
                design='4.12'),
    'C13': dict(level='other', technique='call-graph / origin rules on the two parsing entry points, exact byte-set analysis of the split predicates, pairwise comparison of the post-loop exits under both values of the flag',
                text='Differential structure instead of differential execution: LanguageIdentifier::from_bytes and Locale parsing reach the same core parser body on an iterator split with the same byte set '
                     '{-,_}, with the constants false / true; the flag is read only after the subtag loop and false only adds "leftover subtag => InvalidSubtag" (exits compared pairwise); with nothing left '
                     'the extension parser returns the default extensions; Locale maps an identifier failure to InvalidLanguage and stores {id, extensions} unchanged; From/AsRef conversions wire the id field through.',
                note='Equality of outputs on concrete inputs is not executed. Trusted: slice::split, Peekable (std).',
                design='4.13'),
    'C17': dict(level='other', technique='sibling-agreement rules on the integer packers/unpackers (byte order, width), origin rules on into_parts/from_parts, typestate of constructed variants, validator abstract interpretation',
                text='Decides: From<subtag> for uN and from_raw_unchecked are inverse full-width packings with one byte order and nothing else applied (hence injective); into_parts/from_parts of '
                     'LanguageIdentifier and Locale wire every field straight through in order; from_parts re-establishes sorted, duplicate-free, None-when-empty variants for any order/duplication; every '
                     'subtag and extension validator is exact and normalising (so re-validating stored text is the identity).',
                note='The re-parse of the extension string is the round-trip clause of C05. Equality on concrete values is not executed.',
                design='4.17'),
    'C19': dict(level='other', technique='origin / call-shape rules over the MIR of the serde impls (feature configuration serde) + validator abstract interpretation',
                text='Decides: Serialize::serialize = serializer.serialize_str(self.to_string()) and nothing else; Deserialize hands a visitor that overrides only string visits to deserialize_str/string/any; '
                     'each visit_* = parse::<LanguageIdentifier>(unchanged input).map_err(Error::custom); FromStr = from_bytes; no panic site in these bodies; the subtag validators are exact and normalising.',
                note='serde\'s own dispatch (JSON escapes, Value path, default visit_* errors for non-strings) is trusted, not analysed. Parser/printer/round-trip behaviour is C02/C04/C05.',
                design='4.19'),
})

CHECKS.update({
    'C02': dict(level='proof', technique='abstract interpretation of the validators over an exact byte-string shape domain + transition-table extraction of the core parser from MIR (product exploration against the specification table) + exact byte-set analysis of the split predicate',
                text='Proof, over all byte strings, of the clauses that compose the statement: the split predicate is exactly {-,_}; each subtag validator accepts exactly its production, stores the specified '
                     'case form and returns the specified error; the transition table of the core parser extracted from MIR (exact token shape on every path, every loop state) equals table A.1: class -> slot '
                     '-> next state, first subtag not a language => InvalidLanguage, leftover subtag => InvalidSubtag, other classes end the identifier; productions tried in sequence are pairwise disjoint; '
                     'variants end sorted, duplicate-free, None when empty; from_bytes/FromStr return the core result and error kind unchanged.',
                note='Composition "tokens = split(input)" is slice::split\'s contract (trusted). Trusted: rustc MIR, factgen, std/tinystr summaries, spec tables written from UTS #35.',
                design='4.2'),
    'C03': dict(level='other', technique='transition-table extraction of the five token-stream parsers from MIR (path-sensitive abstract interpretation with exact token shapes) compared with specification tables by product exploration; validator abstract interpretation; byte-set analysis',
                text='Decides, for every byte string class at once: all 13 validators exact and normalising; ExtensionType::from_byte over all 256 bytes; split predicates exactly {-,_}; and for each of the '
                     'five token-stream functions that its per-state transition table equals specification tables A.1-A.5: every subtag class is consumed into the right slot through the right normalisation, '
                     'ends the part, or is rejected as prescribed; no consumed subtag is dropped (multi-character singleton), no parsed value overwritten (repeated singleton, second tlang), a pending '
                     'key is flushed exactly when required, singletons end every sub-parser state. The composition of the tables into the whole-locale grammar is a paper argument (DESIGN App. A).',
                note='Structural: whole-input behaviour is not executed. "either" zones of the property are "either" rows. Duplicate keyword/tfield keys are outside the property.',
                design='4.3'),
    'C04': dict(level='other', technique='emission-automaton extraction from the MIR of every Display impl and language-equivalence check against the canonical grammar (NFA determinisation); guards by path facts; validator abstract interpretation; typestate; item privacy facts',
                text='Decides: the emission language of each of the 10 value-type Display impls equals the canonical grammar (order, literals, optional parts iff present, every element, nothing when empty); '
                     'what is printed verbatim is canonical text (validators exact + normalising, "true" never stored, every setter inserts the validated argument, text-carrying fields private); ordered '
                     'collections are sorted/duplicate-free at every exit of every mutator and constructor; maps are BTreeMaps; canonicalize = parse then to_string.',
                note='"canonicalize(s) is never longer than s" is a numeric fact about run-time strings and is not decided. Values built with the unchecked constructors are outside the quantifier.',
                design='4.4'),
    'C05': dict(level='other', technique='specification-level simulation of every printer-grammar sentence through the parser tables (shape algebra) on top of the EMIT (emission automata) and PARSE (transition tables) equivalences; validator idempotence on canonical shapes; typestate',
                text='Decides the structural preconditions of the round trip: printers equal their grammars and parsers equal their tables (shared with C04/C03); every sentence of the printer grammars (all '
                     'optional parts, lists unrolled 0..2, each extension followed by each extension the printer can emit after it, nested tlang) is re-read by the tables into the slot each subtag was printed '
                     'from; every validator is the identity on canonical text; "und" reads back as the empty language; "true" is never stored; one representation of emptiness and order.',
                note='Equality after the trip on concrete values is not executed; it follows from the above plus std collection semantics. ExtensionsMap::other stays empty (quantifier).',
                design='4.5'),
    'C09': dict(level='other', technique='validator abstract interpretation (case-closed exact productions), exact byte-set analysis of split predicates and of from_byte, typestate of constructors, parser transition tables, item facts (BTreeMap fields)',
                text='Decides the invariances structurally: every validator accepts a case-closed production and stores a fixed case transform; literal comparisons are made on folded text; from_byte maps u/U, '
                     't/T, x/X alike; one separator set {-,_} in all three split predicates; variants/attributes are sorted+deduplicated before they are stored, keywords/tfields live in BTreeMaps; the parser '
                     'tables have a single state per part kind (no dependence on which key/variant came first), -u-/-t- are dispatched from one state into separate slots and a repeated one is rejected in '
                     'either order.',
                note='The metamorphic relation itself is not executed on concrete pairs. Inputs with duplicate keyword/tfield keys are outside the property.',
                design='4.9'),
})

CHECKS.update({
    'C16': dict(level='translation_validation', technique='compile witnesses: generated witness crates type-checked by the compiler; macro expansions read from the MIR of the witness crate (rustc_private driver) and compared with a checker-side reference canonicaliser; compiler diagnostics located per invocation',
                text='Translation validation on a generated witness set (quick: ~440 well-formed + ~65 ill-formed invocations of langid!, lang!, script!, region!, variant!, locale!, langids!, langid_slice!, '
                     'locales!; thorough: several thousand): every well-formed invocation type-checks and its expansion - the integer constants handed to the unchecked constructors and the extension string '
                     'handed to the run-time parse, read from MIR - encodes exactly the canonical value the reference canonicaliser computes for the literal; every ill-formed literal is a compile error whose '
                     'expansion backtrace ends at its own invocation, and interleaved well-formed control invocations are not reported. The run-time parse that locale! emits succeeds by the spec round trip (C05).',
                note='Only the generated witness programs are decided (VERIF_SEED permutes the selection). That run-time parsing equals the reference canonicaliser is C02/C03. Nothing is executed: the compiler expands and type-checks.',
                design='4.16'),
})

NOT_YET = {}


# ---- scope added after the fourth seed round (DESIGN 12.8): each check also carries the obligation families its property depends on
ADDED = {
    'C01': ' Also configuration serde (K2): every body of an impl of a serde trait (Serialize, Deserialize, the visitors) is an entry point; an iterator type that never ends (repeat, cycle, from_fn, open range) is not progress.',
    'C04': ' Values obtained by parsing: the five parser tables (every consumed subtag stored through its validator into its own slot) are part of the check.',
    'C09': ' Equality of the parsed values is the derived structural one (all comparison impls derived) and the printers are the specified functions of the fields (emission automata).',
    'C10': ' The re-parse clause: Display automata and the five parser tables re-read every printable state (including an empty value list under a key) into the slots it was printed from; all thirteen validators are exact.',
    'C11': ' The formula reads "empty" as the stored None: the subtag validators store every spelling of und as None and one text per subtag (exactness + normalisation), Language::default/clear/TryFrom(None) give the empty language.',
    'C13': ' The printers of Locale / ExtensionsMap / the extension lists (nothing is printed for empty extensions) and the core and dispatcher tables (the identifier ends at the first singleton) are part of the check.',
    'C15': ' Comparison with a string must compare the stored text with the argument itself (not with a truncated / padded / re-encoded copy of it).',
    'C16': ' The run-time half of locale! (re-parse of the emitted extension string) is decided on the code: Display automata and parser tables extracted from the MIR, not only the specification tables.',
    'C17': ' A multiset field (private tags) must not be de-duplicated by any constructor or mutator.',
    'C19': ' In the serde configuration itself: the Display automata of LanguageIdentifier and its subtags and the core parser table that re-reads their output.',
}


ADDED2 = {
    'C05': ' Values built by the compile-time macros are covered through the macro witnesses of C16 (cached per tree).',
    'C06': ' Manifest feature wiring (the likelysubtags feature of every crate reaches unic-langid-impl/likelysubtags); subtag validators; macro witnesses.',
    'C07': ' Subtag validators and the empty-language API (the lookups key on "und" = None); both method wrappers.',
    'C08': ' Subtag validators and the empty-language API; the maximize method wrapper as well as the minimize one.',
    'C10': ' Who-may-write: every function with &mut access to a value type (trait impls, free functions) re-establishes the invariants, nobody hands mutable access to an ordered collection out, a mutator without effect specification stores only validated text, searches use the order the lists are kept in, has_variant looks exactly its argument up.',
    'C11': ' Dispatcher and private-use parser tables; macro witnesses.',
    'C12': ' Macro witnesses.',
    'C13': ' Macro witnesses (locale! builds the id the parser builds).',
    'C14': ' Manifest feature wiring; subtag validators.',
    'C15': ' A subtag value is constructed only inside its validator, an unsafe unchecked constructor, derive output or as the empty language (PROV-CTOR); macro witnesses.',
    'C17': ' Macro witnesses.',
    'C19': ' Manifest feature wiring (serde).',
    'C20': ' Manifest feature wiring; macros-only pairs in the quick tier.',
}
# ---- scope added in the fourth build session (DESIGN 12.11-12.13)
ADDED3 = {
    'C01': ' The call graph includes the call-backs of std machinery into hand-written impls of fmt::Write / Iterator / Hasher of workspace types.',
    'C04': ' Macro witnesses.',
    'C05': ' canonicalize is parse-then-print and nothing else (hence idempotent); the extension map reads back its own Display output, which starts with a separator (PARSE-SELFREAD).',
    'C07': ' Macro witnesses.',
    'C08': ' Macro witnesses.',
    'C10': ' Macro witnesses; an external function that receives &mut access to an ordered collection makes its order unknown.',
    'C12': ' Table obligations: a value produced by maximize / minimize is built from table integers, each must decode to canonical text and no stored language may be the text "und".',
    'C13': ' Representation obligations of every constructor and conversion (a Locale carries an id in the one canonical representation).',
    'C14': ' Macro witnesses.',
    'C15': ' A literal handed to a subtag\'s unchecked constructor (also in const initialisers) must be canonical text of that subtag\'s production, never "und".',
    'C16': ' PARSE-SELFREAD (the extension string locale! parses at run time starts with a separator); how the variant list is handed to the unchecked constructor (None / Some(sorted list)); manifest wiring of the macros feature; a witness workspace that does not build is a violation.',
    'C17': ' PARSE-SELFREAD (Locale::into_parts hands out an extension string that starts with a separator).',
    'C18': ' GEN-ENDIAN: every explicit byte-order conversion in the generator binaries uses the byte order of the library (the generators themselves are not run).',
    'C19': ' Macro witnesses.',
    'C20': ' Quick tier also compares likelysubtags -> all and serde -> all (a feature on top of the other); manifest wiring of the macros feature; macro witnesses.',
}
for _k, _v in ADDED2.items():
    ADDED[_k] = ADDED.get(_k, '') + _v
for _k, _v in ADDED3.items():
    ADDED[_k] = ADDED.get(_k, '') + _v


def main():
    for k, extra in ADDED.items():
        if extra.strip() not in CHECKS[k]['text']:
            CHECKS[k]['text'] = CHECKS[k]['text'].rstrip() + ' ' + extra.strip()
    props = [json.loads(l) for l in open(os.path.join(HERE, 'properties.jsonl'))]
    checks = []
    for p in props:
        c = CHECKS.get(p['id'])
        if not c:
            continue
        checks.append({
            'property_id': p['id'],
            'quick_cmd': './check %s --tier quick' % p['id'],
            'thorough_cmd': './check %s --tier thorough' % p['id'],
            'evidence_file': 'evidence/%s.json' % p['id'],
            'replay_cmd_template': './check %s --replay {path}' % p['id'],
            'engine': 'sa',
            'level_claimed': {'category': c['level'], 'text': c['text'], 'design_ref': 'DESIGN.md §' + c['design']},
            'level_note': c['note'],
            'technique': c['technique'],
        })
    na = []
    for p in props:
        if p['id'] not in CHECKS:
            na.append({'property_id': p['id'], 'reason': NOT_YET.get(p['id'], 'check not built yet in this round (static-analysis design in DESIGN.md §4); no claim is made')})
    m = {
        'version': 1,
        'setup_cmd': 'cd /verif/driver && CARGO_NET_OFFLINE=true cargo build --offline',
        'hooks': {
            'guard': 'unic_locale_verif',
            'enable': 'none needed: the rustc_private driver reads private items, statics and cfg-gated code from inside the compiler (RUSTC_WORKSPACE_WRAPPER under cargo +nightly check)',
            'baseline_off_cmd': 'cd /repo && cargo test --workspace --no-fail-fast --offline',
            'source_commits': [],
            'add_only': True,
        },
        'engines': [
            {'name': 'factgen', 'path': 'driver/', 'serves_properties': sorted(CHECKS), 'kind_free_text': 'rustc_private driver dumping MIR/HIR/items/static data as JSON'},
            {'name': 'sa', 'path': 'sa/', 'serves_properties': sorted(CHECKS), 'kind_free_text': 'Python static-analysis engines (path-sensitive abstract interpretation over MIR, shape domain, table/data rules) and per-property rule clients'},
        ],
        'checks': checks,
        'not_applicable': na,
        'notes': 'Static analysis only: no check runs the library or a solver. Both tiers decide every property (except C16 / C20, which build their own configurations) '
                 'twice, over its declared configurations and over the all-features workspace build; an obligation holds iff it holds in both passes. Errors inside the analysis '
                 '(explorer budgets, unexpected MIR shapes) fail closed as INCONCLUSIVE violations (exit 1); exit 2 only when /repo does not compile under the analysis toolchain. See DESIGN.md section 12.',
    }
    with open(os.path.join(HERE, 'MANIFEST.json'), 'w') as f:
        json.dump(m, f, indent=1)
    print('MANIFEST.json: %d checks, %d not claimed' % (len(checks), len(na)))


if __name__ == '__main__':
    main()
