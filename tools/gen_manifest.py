#!/usr/bin/env python3
"""Regenerates /verif/MANIFEST.json from the table below (kept in one place so the manifest is always valid)."""
import json
import os

HERE = os.path.dirname(os.path.dirname(os.path.abspath(__file__)))

CHECKS = {
    'C01': dict(level='proof', technique='call-graph reachability + path-sensitive abstract interpretation of MIR (panic-site discharge), CFG progress rule for loops, SCC recursion check',
                text='Proof over all inputs of the structural obligations that make the calls total: every panic-capable site reachable from a derived '
                     'text-accepting or likely-subtags entry point is shown unreachable on every abstract path (bounds by byte-string shape, index from binary '
                     'search on the same table/vector, unwrap by table data), every loop cycle consumes from a finite iterator created outside it, the call graph is acyclic, '
                     'every external callee has a totality summary, no Display impl constructs fmt::Error. Configurations K0 and likelysubtags.',
                note='Trusted: totality of std/tinystr functions as classified in sa/models.py; allocation failure out of scope; caller-supplied AsRef/Iterator impls are total and finite.',
                design='4.1'),
    'C15': dict(level='proof', technique='abstract interpretation of validator MIR over an exact byte-string shape domain (custom rustc_private driver + Python engines)',
                text='Proof over all byte strings: for each of Language/Script/Region/Variant::from_bytes (and FromStr, TryFrom) the union of abstract '
                     'states at accepting returns equals the UTS #35 production (both inclusions), the payload is the input under the specified case transform, '
                     '"und" is the empty language, the error constant is the specified one; as_str/Display/PartialEq<str> read only the stored text.',
                note='Trusted: rustc MIR, the factgen printer, summaries of tinystr 0.7.6 / std in sa/models.py, spec/shapes.json. No execution of the library.',
                design='4.15'),
}

NOT_YET = {}


def main():
    props = [json.loads(l) for l in open(os.path.join(HERE, 'properties.jsonl'))]
    checks = []
    for p in props:
        c = CHECKS.get(p['id'])
        if not c:
            continue
        checks.append({
            'property_id': p['id'],
            'quick_cmd': './check %s --tier quick' % p['id'],
            'thorough_cmd': './check %s --tier thorough' % p['id'],
            'evidence_file': 'evidence/%s.json' % p['id'],
            'replay_cmd_template': './check %s --replay {path}' % p['id'],
            'engine': 'sa',
            'level_claimed': {'category': c['level'], 'text': c['text'], 'design_ref': 'DESIGN.md §' + c['design']},
            'level_note': c['note'],
            'technique': c['technique'],
        })
    na = []
    for p in props:
        if p['id'] not in CHECKS:
            na.append({'property_id': p['id'], 'reason': NOT_YET.get(p['id'], 'check not built yet in this round (static-analysis design in DESIGN.md §4); no claim is made')})
    m = {
        'version': 1,
        'setup_cmd': 'cd /verif/driver && CARGO_NET_OFFLINE=true cargo build --offline',
        'hooks': {
            'guard': 'unic_locale_verif',
            'enable': 'none needed: the rustc_private driver reads private items, statics and cfg-gated code from inside the compiler (RUSTC_WORKSPACE_WRAPPER under cargo +nightly check)',
            'baseline_off_cmd': 'cd /repo && cargo test --workspace --no-fail-fast --offline',
            'source_commits': [],
            'add_only': True,
        },
        'engines': [
            {'name': 'factgen', 'path': 'driver/', 'serves_properties': sorted(CHECKS), 'kind_free_text': 'rustc_private driver dumping MIR/HIR/items/static data as JSON'},
            {'name': 'sa', 'path': 'sa/', 'serves_properties': sorted(CHECKS), 'kind_free_text': 'Python static-analysis engines (path-sensitive abstract interpretation over MIR, shape domain, table/data rules) and per-property rule clients'},
        ],
        'checks': checks,
        'not_applicable': na,
        'notes': 'Static analysis only: no check runs the library or a solver. See DESIGN.md.',
    }
    with open(os.path.join(HERE, 'MANIFEST.json'), 'w') as f:
        json.dump(m, f, indent=1)
    print('MANIFEST.json: %d checks, %d not claimed' % (len(checks), len(na)))


if __name__ == '__main__':
    main()
