#!/usr/bin/env python3
"""tools/confirm_seed.py <worktree> <mutation dir> [<seed id>]

Independent confirmation of a seeded change produced by a sub-agent, in a scratch worktree (never /repo):
  1. patch applies to the clean worktree;  2. workspace builds (default + all features);  3. the existing test suite passes with the change;
  4. the demonstration FAILS with the change;  5. the demonstration PASSES without it.
If everything holds and a seed id is given, the mutation is stored as /verif/seeded/<seed id>/ (patch.diff, demo, meta.json)."""
import json
import os
import shutil
import subprocess
import sys

VERIF = os.path.dirname(os.path.dirname(os.path.abspath(__file__)))


def sh(cmd, cwd, timeout=1800):
    env = dict(os.environ, CARGO_NET_OFFLINE='true')
    r = subprocess.run(cmd, cwd=cwd, shell=True, capture_output=True, text=True, timeout=timeout, env=env)
    return r.returncode, (r.stdout + r.stderr)


def main():
    wt, mdir = sys.argv[1], sys.argv[2]
    sid = sys.argv[3] if len(sys.argv) > 3 else None
    meta = json.load(open(os.path.join(mdir, 'meta.json')))
    patch = os.path.join(mdir, 'patch.diff')
    demo_src = [f for f in os.listdir(mdir) if f not in ('patch.diff', 'meta.json')]
    res = {'mutation': mdir, 'meta': meta}
    assert wt.startswith('/tmp/'), 'scratch worktrees only'
    sh('git checkout -- . && git clean -fdq -e out -e target', wt)
    demo_dst = os.path.join(wt, meta['demo_path_in_repo'])
    demo_file = os.path.join(mdir, demo_src[0]) if len(demo_src) == 1 else os.path.join(mdir, os.path.basename(meta['demo_path_in_repo']))
    if not os.path.exists(demo_file):
        cands = [f for f in demo_src if f.endswith('.rs')]
        demo_file = os.path.join(mdir, cands[0])
    try:
        rc, out = sh('git apply --check %s && git apply %s' % (patch, patch), wt)
        res['applies'] = rc == 0
        if rc != 0:
            res['error'] = out[-500:]
            return finish(res, sid, mdir, demo_file)
        rc1, o1 = sh('cargo build --workspace --offline 2>&1 | tail -3', wt)
        rc2, o2 = sh('cargo build --workspace --all-features --offline 2>&1 | tail -3', wt)
        res['builds'] = 'error' not in o1 and 'error' not in o2
        rc, out = sh('cargo test --workspace --no-fail-fast --offline 2>&1 | grep -E "^test result|FAILED|failed" ', wt)
        res['suite_passes_with_change'] = ('FAILED' not in out and 'failed;' in out and all(' 0 failed' in l for l in out.splitlines() if l.startswith('test result')))
        res['suite_summary'] = [l for l in out.splitlines() if l.startswith('test result')][:12]
        os.makedirs(os.path.dirname(demo_dst), exist_ok=True)
        shutil.copy(demo_file, demo_dst)
        rc, out = sh(meta['demo_cmd'] + ' 2>&1 | tail -15', wt)
        res['demo_fails_with_change'] = ('FAILED' in out or 'panicked' in out or 'error' in out) and 'test result: ok' not in out
        res['demo_with_change_tail'] = out[-600:]
        sh('git apply -R %s' % patch, wt)
        rc, out = sh(meta['demo_cmd'] + ' 2>&1 | tail -8', wt)
        res['demo_passes_without_change'] = 'test result: ok' in out and 'FAILED' not in out
        res['demo_without_change_tail'] = out[-300:]
    finally:
        if os.path.exists(demo_dst):
            os.remove(demo_dst)
        sh('git checkout -- . && git clean -fdq -e out -e target', wt)
    finish(res, sid, mdir, demo_file)


def finish(res, sid, mdir, demo_file):
    ok = all(res.get(k) for k in ('applies', 'builds', 'suite_passes_with_change', 'demo_fails_with_change', 'demo_passes_without_change'))
    res['confirmed'] = ok
    print(json.dumps({k: v for k, v in res.items() if k not in ('meta',)}, indent=1))
    if ok and sid:
        d = os.path.join(VERIF, 'seeded', sid)
        os.makedirs(d, exist_ok=True)
        shutil.copy(os.path.join(mdir, 'patch.diff'), os.path.join(d, 'patch.diff'))
        shutil.copy(demo_file, os.path.join(d, os.path.basename(demo_file)))
        m = dict(res['meta'])
        m['confirmed_by_me'] = {k: res[k] for k in ('applies', 'builds', 'suite_passes_with_change', 'demo_fails_with_change', 'demo_passes_without_change')}
        m['confirmation_cmd'] = 'tools/confirm_seed.py <scratch worktree> <mutation dir> (apply, build, cargo test --workspace, demo with/without the change)'
        m['suite_summary'] = res.get('suite_summary')
        json.dump(m, open(os.path.join(d, 'meta.json'), 'w'), indent=1)
    sys.exit(0 if ok else 1)


main()
