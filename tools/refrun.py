#!/usr/bin/env python3
"""tools/refrun.py [ids...] — behaviour-preserving refactorings (refactors/<id>/patch.diff) must leave every check silent.
Applies each to /repo, runs all 20 checks (quick), restores /repo; writes refactors/RESULTS.json / RESULTS.md."""
import json
import os
import subprocess
import sys
import concurrent.futures as cf

VERIF = os.path.dirname(os.path.dirname(os.path.abspath(__file__)))
REPO = '/repo'
ALL = ['C%02d' % i for i in range(1, 21)]


def run_check(c):
    p = subprocess.run([os.path.join(VERIF, 'check'), c, '--tier', 'quick'], cwd=VERIF, capture_output=True, text=True)
    viol = [l.strip()[:300] for l in p.stdout.splitlines() if l.startswith('  VIOLATED')]
    det = []
    lines = p.stdout.splitlines()
    for i, l in enumerate(lines):
        if l.startswith('  VIOLATED'):
            det.append(l.strip()[:260])
            for k in range(1, 4):
                if i + k < len(lines) and lines[i + k].startswith('      '):
                    det.append('    ' + lines[i + k].strip()[:260])
    return c, p.returncode, det


def main():
    ids = [a for a in sys.argv[1:] if not a.startswith('-')]
    checks = ALL
    for a in sys.argv[1:]:
        if a.startswith('--checks='):
            checks = a.split('=')[1].split(',')
    allids = sorted(d for d in os.listdir(os.path.join(VERIF, 'refactors')) if os.path.isdir(os.path.join(VERIF, 'refactors', d)))
    ids = [i for i in allids if not ids or i in ids or i.split('-')[0] in ids]
    st = subprocess.run(['git', '-C', REPO, 'status', '--porcelain', '--untracked-files=no'], capture_output=True, text=True).stdout.strip()
    if st:
        print('REFUSING: /repo has uncommitted changes')
        return 2
    resfile = os.path.join(VERIF, 'refactors', 'RESULTS.json')
    results = json.load(open(resfile)) if os.path.exists(resfile) else {}
    for rid in ids:
        patch = os.path.join(VERIF, 'refactors', rid, 'patch.diff')
        r = subprocess.run(['git', '-C', REPO, 'apply', patch], capture_output=True, text=True)
        if r.returncode != 0:
            print(rid, 'DOES NOT APPLY', r.stderr[:200])
            results[rid] = {'applies': False}
            continue
        row = {}
        try:
            # warm the fact cache once, then run the checks in parallel
            run_check(checks[0])
            with cf.ThreadPoolExecutor(max_workers=8) as ex:
                for c, rc, det in ex.map(run_check, checks):
                    row[c] = {'exit': rc, 'violations': det}
        finally:
            subprocess.run(['git', '-C', REPO, 'checkout', '--', '.'], check=True)
            subprocess.run(['git', '-C', VERIF, 'checkout', '--', 'evidence'], capture_output=True)
        prev = results.get(rid, {}).get('checks', {})
        prev.update(row)
        results[rid] = {'applies': True, 'checks': prev}
        noisy = {c: v for c, v in row.items() if v['exit'] != 0}
        print(rid, 'SILENT' if not noisy else 'ALARMS: ' + ' '.join(sorted(noisy)))
        if '-v' in sys.argv:
            seen = set()
            for c, v in sorted(noisy.items()):
                for l in v['violations'][:4]:
                    key = l.strip()[:120]
                    if key in seen:
                        continue
                    seen.add(key)
                    print('     ', c, l[:230])
        json.dump(results, open(resfile, 'w'), indent=1, sort_keys=True)
    lines = ['# Behaviour-preserving refactorings: every check must stay silent', '', '| refactoring | result | checks that raise an alarm | summary |', '|---|---|---|---|']
    for rid in sorted(results):
        r = results[rid]
        meta = {}
        try:
            meta = json.load(open(os.path.join(VERIF, 'refactors', rid, 'meta.json')))
        except Exception:
            pass
        if not r.get('applies'):
            lines.append('| %s | patch does not apply | | |' % rid)
            continue
        noisy = sorted(c for c, v in r['checks'].items() if v['exit'] != 0)
        lines.append('| %s | %s | %s | %s |' % (rid, 'silent (20/20)' if not noisy else 'FALSE ALARM', ' '.join(noisy), meta.get('summary', '').replace('|', '/')[:200]))
    open(os.path.join(VERIF, 'refactors', 'RESULTS.md'), 'w').write('\n'.join(lines) + '\n')
    return 0


sys.exit(main())
