#!/usr/bin/env python3
"""tools/probe.py <patch.diff | --sed 'file' 'old' 'new' ...> [--checks=C01,C02] [-v]

Ad-hoc probe: applies one change to a scratch copy of /repo's HEAD (under /tmp/pmx/probe-<pid>, removed afterwards), runs the quick
checks there (VERIF_REPO / VERIF_CACHE / VERIF_EVIDENCE_DIR point into the scratch directory; /repo is untouched) and prints which
checks raise an alarm and by which rules.  `--sed file old new` replaces the first occurrence of the literal `old` in `file`
(several --sed groups may be given); the scratch tree must still compile (cargo check is run first and its errors shown)."""
import concurrent.futures as cf
import os
import shutil
import subprocess
import sys

sys.path.insert(0, os.path.dirname(os.path.abspath(__file__)))
import pmatrix  # noqa: E402


def main():
    argv = sys.argv[1:]
    checks = pmatrix.ALL
    verbose = '-v' in argv
    seds = []
    patch = None
    i = 0
    while i < len(argv):
        a = argv[i]
        if a == '--sed':
            seds.append((argv[i + 1], argv[i + 2], argv[i + 3]))
            i += 4
            continue
        if a.startswith('--checks='):
            checks = a[9:].split(',')
        elif not a.startswith('-'):
            patch = os.path.abspath(a)
        i += 1
    d = os.path.join(pmatrix.ROOT, 'probe-%d' % os.getpid())
    shutil.rmtree(d, ignore_errors=True)
    os.makedirs(os.path.join(d, 'repo'))
    try:
        subprocess.run('git -C %s archive HEAD | tar -x -C %s/repo' % (pmatrix.REPO, d), shell=True, check=True)
        if patch:
            r = subprocess.run(['patch', '-p1', '-s', '-i', patch], cwd=os.path.join(d, 'repo'), capture_output=True, text=True)
            if r.returncode != 0:
                print('patch does not apply:', r.stdout, r.stderr)
                return 2
        for f, old, new in seds:
            p = os.path.join(d, 'repo', f)
            s = open(p).read()
            if old not in s:
                print('not found in %s: %r' % (f, old))
                return 2
            open(p, 'w').write(s.replace(old, new, 1))
        r = subprocess.run('cargo check --workspace --all-features --offline 2>&1 | grep -E "^(error|warning: unused)" -A6 | head -40', shell=True, cwd=os.path.join(d, 'repo'), capture_output=True, text=True,
                           env=dict(os.environ, CARGO_TARGET_DIR=os.path.join(d, 'target')))
        if 'error' in r.stdout:
            print('does not compile:\n' + r.stdout)
            return 2
        first = pmatrix.run_check(checks[0], d)
        res = {checks[0]: first}
        with cf.ThreadPoolExecutor(max_workers=6) as ex:
            for c, rr in zip(checks[1:], ex.map(lambda c: pmatrix.run_check(c, d), checks[1:])):
                res[c] = rr
        fired = [c for c in checks if res[c]['fired']]
        errs = [c for c in checks if res[c]['exit'] not in (0, 1)]
        print('fired: %s' % (' '.join(fired) or '-'))
        if errs:
            print('errors: %s' % ' '.join(errs))
        for c in checks:
            if res[c]['fired'] or res[c]['exit'] not in (0, 1):
                print('  %s: %s' % (c, ', '.join(res[c]['rules'])))
                if verbose:
                    for l in res[c]['violations'][:8]:
                        print('      ' + l[:240])
                    if res[c]['tail']:
                        print('      ' + res[c]['tail'])
        return 0
    finally:
        shutil.rmtree(d, ignore_errors=True)


if __name__ == '__main__':
    sys.exit(main())
