#!/usr/bin/env python3
"""tools/canary.py — positive examples for rules that have no instance on today's tree (canary/<id>/patch.diff + meta.json: property, rules).
Each patch adds code that compiles and violates the named rule(s); it is applied to a scratch copy of /repo's HEAD and the property's quick check must
report those rules.  (They cannot be stored as seeded changes: they add API, so no demonstration can pass on the unchanged tree.)"""
import json
import os
import shutil
import subprocess
import sys

VERIF = os.path.dirname(os.path.dirname(os.path.abspath(__file__)))


def main():
    bad = 0
    for cid in sorted(os.listdir(os.path.join(VERIF, 'canary'))):
        d0 = os.path.join(VERIF, 'canary', cid)
        meta = json.load(open(os.path.join(d0, 'meta.json')))
        d = os.path.join('/tmp/canary', cid)
        shutil.rmtree(d, ignore_errors=True)
        os.makedirs(os.path.join(d, 'repo'))
        try:
            subprocess.run('git -C /repo archive HEAD | tar -x -C %s/repo' % d, shell=True, check=True)
            r = subprocess.run(['patch', '-p1', '-s', '-i', os.path.join(d0, 'patch.diff')], cwd=os.path.join(d, 'repo'), capture_output=True, text=True)
            if r.returncode != 0:
                print(cid, 'PATCH DOES NOT APPLY')
                bad += 1
                continue
            env = dict(os.environ, VERIF_REPO=os.path.join(d, 'repo'), VERIF_CACHE=os.path.join(d, 'cache'), VERIF_EVIDENCE_DIR=os.path.join(d, 'evidence'))
            p = subprocess.run([os.path.join(VERIF, 'check'), meta['property'], '--tier', 'quick'], cwd=VERIF, capture_output=True, text=True, env=env)
            rules = sorted(set(l.split('rule ')[-1].strip() for l in p.stdout.splitlines() if l.startswith('  VIOLATED')))
            missing = [x for x in meta['rules'] if x not in rules]
            ok = p.returncode == 1 and not missing
            print(cid, meta['property'], 'fired' if ok else 'NOT FIRED (exit %d, missing %s)' % (p.returncode, missing), rules)
            bad += not ok
        finally:
            shutil.rmtree(d, ignore_errors=True)
    return 1 if bad else 0


sys.exit(main())
