#!/usr/bin/env python3
import json, glob, sys
import jsonschema
ok = True
jsonschema.validate(json.load(open('/verif/MANIFEST.json')), json.load(open('/root/.vp/MANIFEST.schema.json')))
es = json.load(open('/root/.vp/EVIDENCE.schema.json'))
for f in sorted(glob.glob('/verif/evidence/C*.json')):
    try:
        jsonschema.validate(json.load(open(f)), es)
    except Exception as e:
        ok = False
        print('INVALID', f, str(e)[:300])
print('valid' if ok else 'INVALID')
