"""Readable rendering of the JSON MIR (debug aid; used in reports for path rules)."""
import sys


def place(p):
    s = '_%d' % p['l']
    for e in p['p']:
        if e == '*':
            s = '(*%s)' % s
        elif 'f' in e:
            s = '%s.%d' % (s, e['f'])
        elif 'dc' in e:
            s = '(%s as %s)' % (s, e['n'])
        elif 'idx' in e:
            s = '%s[_%d]' % (s, e['idx'])
        elif 'cidx' in e:
            s = '%s[%s%d of %d]' % (s, '-' if e['end'] else '', e['cidx'], e['min'])
        elif 'sub' in e:
            s = '%s[%d..%s%d]' % (s, e['sub'][0], '-' if e['end'] else '', e['sub'][1])
        else:
            s = '%s.?%s' % (s, e)
    return s


def const(c):
    if 'int' in c:
        return 'const %s_%s' % (c['int'], c['cty'])
    if 'fn' in c:
        return 'fn %s' % c['fn']
    if 'static' in c:
        return 'static %s' % c['static']
    if 'slice' in c:
        return 'const %r' % bytes(c['slice'])
    if 'mem' in c:
        return 'const mem%s:%s' % (c['mem'], c['cty'])
    if 'indirect' in c:
        return 'const ind%s:%s' % (c['indirect'], c['cty'])
    if c.get('zst'):
        return 'const ZST:%s' % c['cty']
    return 'const ?%s' % c


def op(o):
    if 'copy' in o:
        return place(o['copy'])
    if 'move' in o:
        return 'move ' + place(o['move'])
    if 'const' in o:
        return const(o['const'])
    return '?%s' % o


def rv(r):
    k = r['k']
    if k == 'use':
        return op(r['o'])
    if k == 'ref':
        return '&%s%s' % ('mut ' if r['mut'] else '', place(r['p']))
    if k == 'rawptr':
        return '&raw %s' % place(r['p'])
    if k == 'cast':
        return '%s as %s (%s)' % (op(r['o']), r['to'], r['ck'][:30])
    if k == 'bin':
        return '%s(%s, %s)' % (r['op'], op(r['a']), op(r['b']))
    if k == 'un':
        return '%s(%s)' % (r['op'], op(r['o']))
    if k == 'discr':
        return 'discriminant(%s)' % place(r['p'])
    if k == 'agg':
        kd = r['kind']
        nm = kd.get('agg')
        if nm == 'adt':
            nm = '%s::%s' % (kd['def'], kd['vname'])
        elif nm == 'closure':
            nm = 'closure %s' % kd['def']
        return '%s(%s)' % (nm, ', '.join(op(x) for x in r['ops']))
    if k == 'repeat':
        return '[%s; %s]' % (op(r['o']), r['n'])
    return '?%s' % r


def term(t):
    k = t['k']
    if k == 'goto':
        return 'goto bb%d' % t['t']
    if k == 'switch':
        return 'switchInt(%s) [%s, otherwise: bb%d]' % (op(t['d']), ', '.join('%s: bb%d' % (v, b) for v, b in t['t']), t['else'])
    if k == 'call':
        return '%s = %s(%s) -> bb%d   [%s]%s' % (place(t['dest']), t['r'] or t['f'], ', '.join(op(a) for a in t['args']), t['t'], t['sp'],
                                                 ' {decl %s}' % t['f'] if t['r'] and t['r'] != t['f'] else '')
    if k == 'assert':
        return 'assert(%s == %s, %s) -> bb%d' % (op(t['c']), t['exp'], t['msg'][:50], t['t'])
    if k == 'drop':
        return 'drop(%s) -> bb%d' % (place(t['p']), t['t'])
    return k


def body(name, b, out=sys.stdout, cleanup=False):
    m = b['mir']
    print('fn %s  [%s]  argc=%d' % (name, b.get('span'), m['argc']), file=out)
    for i, t in enumerate(m['locals']):
        dn = [n for n, p in m['debug'].items() if p['l'] == i and not p['p']]
        print('    let _%d: %s;%s' % (i, t, '  // ' + ','.join(dn) if dn else ''), file=out)
    for bi, blk in enumerate(m['blocks']):
        if blk['cleanup'] and not cleanup:
            continue
        print('  bb%d:%s' % (bi, ' (cleanup)' if blk['cleanup'] else ''), file=out)
        for s in blk['stmts']:
            if s['k'] == 'assign':
                print('    %s = %s' % (place(s['lhs']), rv(s['rv'])), file=out)
            elif s['k'] == 'setdiscr':
                print('    discriminant(%s) = %d' % (place(s['lhs']), s['v']), file=out)
            else:
                print('    ?%s' % s, file=out)
        print('    %s' % term(blk['term']), file=out)


if __name__ == '__main__':
    import os
    sys.path.insert(0, os.path.dirname(os.path.dirname(os.path.abspath(__file__))))
    from sa import facts
    cfg = sys.argv[1]
    f = facts.load(cfg)
    for pat in sys.argv[2:]:
        for n, b in f.bodies.items():
            if pat in n:
                body(n, b)
                for i, pb in enumerate(b.get('promoted', [])):
                    body('%s::promoted[%d]' % (n, i), {'mir': pb, 'span': ''})
