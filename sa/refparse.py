"""Checker-side reference recogniser / canonicaliser for Unicode language and locale identifiers, written from the property
statements (C02, C03, C04) and UTS #35 - independent of the repository's parser.  Used to compute the *expected* expansion of
macro witnesses (C16) and to generate well-formed / ill-formed literals.  Three-zone: returns None for must-reject inputs,
raises Either for inputs the property leaves open (they are not used as witnesses)."""
import re


class Either(Exception):
    pass


def is_alpha(s):
    return s.isascii() and s.isalpha()


def is_alnum(s):
    return s.isascii() and s.isalnum()


def is_digit(s):
    return s.isascii() and s.isdigit()


def lang_ok(t):
    return is_alpha(t) and len(t) in (2, 3, 5, 6, 7, 8)


def script_ok(t):
    return is_alpha(t) and len(t) == 4


def region_ok(t):
    return (is_alpha(t) and len(t) == 2) or (is_digit(t) and len(t) == 3)


def variant_ok(t):
    return (is_alnum(t) and 5 <= len(t) <= 8) or (len(t) == 4 and is_digit(t[0]) and is_alnum(t))


def parse_langid_tokens(toks, i=0):
    """-> ((lang|None, script|None, region|None, [variants sorted unique]), next index) or None"""
    if i >= len(toks) or not lang_ok(toks[i]):
        return None
    lang = toks[i].lower()
    lang = None if lang == 'und' else lang
    i += 1
    script = region = None
    if i < len(toks) and script_ok(toks[i]):
        script = toks[i][0].upper() + toks[i][1:].lower()
        i += 1
    if i < len(toks) and region_ok(toks[i]):
        region = toks[i].upper()
        i += 1
    variants = []
    while i < len(toks) and variant_ok(toks[i]):
        variants.append(toks[i].lower())
        i += 1
    return (lang, script, region, sorted(set(variants))), i


def langid_string(li):
    lang, script, region, variants = li
    return '-'.join([lang or 'und'] + ([script] if script else []) + ([region] if region else []) + variants)


def parse_langid(s):
    toks = re.split(r'[-_]', s)
    r = parse_langid_tokens(toks)
    if r is None or r[1] != len(toks):
        return None
    return r[0]


def parse_locale(s):
    """-> (langid tuple, canonical extension string) | None (must reject); raises Either in the open zones"""
    toks = re.split(r'[-_]', s)
    r = parse_langid_tokens(toks)
    if r is None:
        return None
    li, i = r
    uext = text = None
    priv = None
    while i < len(toks):
        t = toks[i]
        if t == '':
            raise Either('empty subtag at an extension boundary')
        if len(t) != 1:
            return None
        c = t.lower()
        i += 1
        if c == 'u':
            attrs, kws = [], {}
            while i < len(toks) and 3 <= len(toks[i]) <= 8 and is_alnum(toks[i]):
                attrs.append(toks[i].lower())
                i += 1
            while i < len(toks) and len(toks[i]) == 2 and is_alnum(toks[i][0]) and is_alpha(toks[i][1]):
                k = toks[i].lower()
                i += 1
                types = []
                while i < len(toks) and 3 <= len(toks[i]) <= 8 and is_alnum(toks[i]):
                    if toks[i].lower() != 'true':
                        types.append(toks[i].lower())
                    i += 1
                if k in kws:
                    raise Either('duplicate keyword key')
                kws[k] = types
            if i < len(toks) and len(toks[i]) != 1:
                if toks[i] == '':
                    raise Either('empty subtag')
                return None
            if not attrs and not kws:
                raise Either('empty -u- body')
            if uext is not None:
                return None
            uext = (sorted(set(attrs)), kws)
        elif c == 't':
            tlang = None
            fields = {}
            if i < len(toks) and lang_ok(toks[i]):
                rr = parse_langid_tokens(toks, i)
                tlang, i = rr
            while i < len(toks) and len(toks[i]) == 2 and is_alpha(toks[i][0]) and is_digit(toks[i][1]):
                k = toks[i].lower()
                i += 1
                vals = []
                while i < len(toks) and 3 <= len(toks[i]) <= 8 and is_alnum(toks[i]):
                    if toks[i].lower() != 'true':
                        vals.append(toks[i].lower())
                    i += 1
                if k in fields:
                    raise Either('duplicate tfield key')
                fields[k] = vals
            if i < len(toks) and len(toks[i]) != 1:
                if toks[i] == '':
                    raise Either('empty subtag')
                return None
            if tlang is None and not fields:
                raise Either('empty -t- body')
            if text is not None:
                return None
            text = (tlang, fields)
        elif c == 'x':
            tags = []
            while i < len(toks):
                if not (1 <= len(toks[i]) <= 8 and is_alnum(toks[i])):
                    return None
                tags.append(toks[i].lower())
                i += 1
            if not tags:
                raise Either('empty -x- body')
            priv = sorted(tags)
        elif is_alnum(c):
            raise Either('other extension')
        else:
            return None
    out = ''
    if text is not None:
        out += '-t'
        if text[0] is not None:
            out += '-' + langid_string(text[0])
        for k in sorted(text[1]):
            out += '-' + '-'.join([k] + text[1][k])
    if uext is not None:
        out += '-u'
        for a in uext[0]:
            out += '-' + a
        for k in sorted(uext[1]):
            out += '-' + '-'.join([k] + uext[1][k])
    if priv is not None:
        out += '-x-' + '-'.join(priv)
    return li, out


def enc(text, width, order='little'):
    b = text.encode('ascii')
    return int.from_bytes(b + b'\0' * (width - len(b)), order)
