"""EMIT — emission grammars of Display impls (DESIGN §3.10).

A `Display::fmt` body is explored with every other repository `Display::fmt` kept opaque.  Each segment of the path graph is
projected on its emission events, which become symbols:
    literal bytes (write_str / write_char of constants, literal pieces of format templates)
    <role>        a value handed to the formatter: a field of self, an element of a collection field, key / value of a map entry
The symbol sequences of the segment graph form an NFA; it is determinised and compared for language equality with the NFA of
the specified grammar.  Guards are checked separately on the paths: an optional field is printed iff present, a loop is left
towards Ok only when its iterator is exhausted, the empty form is taken only when every printed field is empty."""
import re
from . import px as pxm, terms, models


# ---------------------------------------------------------------------------------------------------------------
# roles: where a printed value comes from, named by types (never by private field names)

def simple_ty(t):
    t = terms.norm_ty(t)
    t = re.sub(r'\b[a-z_]+::', '', t)          # drop module paths
    return t.replace(' ', '')


class Roles:
    def __init__(self, facts, self_ty):
        self.facts = facts
        self.self_ty = self_ty

    def field_role(self, owner_ty, idx):
        fs = terms.struct_fields(self.facts, owner_ty)
        if fs is None or idx >= len(fs):
            return None, None
        ty = terms.norm_ty(fs[idx]['ty'])
        return simple_ty(ty), ty


def template_pieces(b):
    """decode a format_args template: list of ('lit', bytes) | ('arg',) ; None if a construct is not understood"""
    out = []
    i = 0
    while i < len(b):
        c = b[i]
        if c == 0:
            return out
        if c < 0x80:
            out.append(('lit', bytes(b[i + 1:i + 1 + c])))
            i += 1 + c
            continue
        if c == 0x80 and i + 2 < len(b):
            n = b[i + 1] | (b[i + 2] << 8)
            out.append(('lit', bytes(b[i + 3:i + 3 + n])))
            i += 3 + n
            continue
        if c == 0xC0:
            out.append(('arg',))
            i += 1
            continue
        return None
    return out


class Emission:
    """symbol extraction for one fmt body"""

    def __init__(self, prog, fn, self_adt, param_roles=None, depth=0):
        self.prog = prog
        self.fn = fn
        self.self_adt = self_adt
        # role path (from the printed value) of each parameter: {1: ()} for a Display::fmt body; for a printing helper with loops that
        # is analysed as a sub-automaton, the paths of the arguments it was called with
        self.param_roles = param_roles if param_roles is not None else {1: ()}
        self.depth = depth
        self.subs = []
        self.elem_subst = {}       # loop iterator place -> value term its element stands for (composite iterators: chain / flat_map / once / Option)
        self.composite_ok = set()  # loop iterators whose element sequence was turned into a regular expression
        self.composite_rx = {}     # loop head -> that regular expression
        self._probe = 0
        others = [n for n, b in prog.bodies.items() if n != fn and b.get('impl') and b['impl']['trait_def'].endswith('fmt::Display') and n.endswith('::fmt')
                  and (n.startswith('unic_langid_impl::') or n.startswith('unic_locale_impl::'))]
        self.opaque = set(others)
        self.e = pxm.PX(prog, opaque=self.opaque)
        self.segs = self.e.explore(fn)
        self.problems = []
        self.iter_src = {}
        for s in self.segs:
            for ev in s.events:
                if ev[0] == 'def':
                    self.iter_src.setdefault(ev[1], ev[2])
        # iterator locals are usually initialised by a move from the call's destination temporary: follow whole-local moves
        alias = {}
        for blk in prog.bodies[fn]['mir']['blocks']:
            for st_ in blk['stmts']:
                if st_['k'] == 'assign' and not st_['lhs']['p'] and st_['rv']['k'] == 'use':
                    o = st_['rv']['o']
                    pl = o.get('move') or o.get('copy')
                    if pl and not pl['p']:
                        alias.setdefault(st_['lhs']['l'], pl['l'])
        for (k0, fid, l) in [k for k in list(self.iter_src)]:
            pass
        self.alias = alias

    # ---- where does a printed value come from
    def role_of(self, st, v, depth=0):
        """-> tuple path of role steps, or None"""
        if depth > 30 or not isinstance(v, tuple) or not v:
            return None
        k = v[0]
        if k in ('ref', 'cref', 'init', 'P', 'optref'):
            return self.role_of(st, v[1], depth + 1)
        if k == 'param':
            return self.param_roles.get(v[1])
        if k == 'pure' and v[1].split('::')[-1] in ('deref', 'as_str', 'as_ref', 'borrow', 'as_deref', 'clone') and len(v[2]) == 1:
            return self.role_of(st, v[2][0], depth + 1)
        if k in ('F', 'fld'):
            b = self.role_of(st, v[1], depth + 1)
            if b is None or not isinstance(v[2], int):
                return None
            if v[1][0] in ('D', 'dcv', 'pos') and v[2] == 0:
                return b          # field 0 of the Some/Ok variant is the payload itself
            return b + (('f', v[2]),)
        if k in ('D', 'dcv'):
            b = self.role_of(st, v[1], depth + 1)
            return None if b is None else b + (('some',),)
        if k == 'pos':
            b = self.role_of(st, v[1], depth + 1)
            return None if b is None else b + (('some',),)
        if k == 'T' and v[1] in self.elem_subst:
            return self.role_of(st, self.elem_subst[v[1]], depth + 1)
        if k == 'T':       # element obtained from an iterator: ('T', iterator place, element id)
            src = self.iter_source(st, v[1])
            return None if src is None else src + (('elem',),)
        if k == 'nextres':
            src = self.iter_source(st, v[1])
            return None if src is None else src + (('elem',),)
        if k == 'sliceiter':
            return self.role_of(st, ('P', ('ref', v[1])) if v[1][0] != 'P' else v[1], depth + 1)
        return None

    def iter_source(self, st, itplace):
        v = self.iter_src.get(itplace)
        seen = set()
        pl = itplace
        while v is None and pl[0] == 'L' and pl[2] in self.alias and pl[2] not in seen:
            seen.add(pl[2])
            pl = ('L', pl[1], self.alias[pl[2]])
            v = self.iter_src.get(pl)
        if v is None:
            try:
                v = self.e.read(st, itplace)
            except Exception:
                return None
        # an iterator value: sliceiter(subject) | into_iter identity (reference to the collection) | pure iter(..)
        for _ in range(6):
            if v[0] == 'sliceiter':
                return self.role_of(st, v[1])
            if v[0] == 'pure' and v[1].split('::')[-1] in ('iter', 'into_iter', 'keys', 'values') and v[2]:
                base = self.role_of(st, v[2][0])
                if base is None:
                    return None
                last = v[1].split('::')[-1]
                return base + ((('keys',),) if last == 'keys' else (('values',),) if last == 'values' else ())
            if v[0] == 'pure' and v[1].split('::')[-1] in ('map', 'copied', 'cloned', 'by_ref', 'peekable', 'fuse') and v[2]:
                # an adaptor that hands every element on as it is (copied/cloned) or through a projection closure that only views the element as text
                if v[1].split('::')[-1] == 'map' and not (len(v[2]) == 2 and self.transparent_closure(st, v[2][1])):
                    return None
                v = v[2][0]
                continue
            if v[0] in ('ref', 'cref'):
                r = self.role_of(st, v)
                if r is not None:
                    return r
                v = v[1]
                continue
            if v[0] == 'mut':
                v = v[1]
                continue
            break
        return self.role_of(st, v)

    # ---- composite iterators: the sequence of elements as a regular expression over value terms
    def iter_value(self, st, itplace):
        """the value an iterator local was created with (following whole-local moves)"""
        # the definition on THIS path (a composite iterator built from Option values differs from path to path)
        cands = [itplace]
        seen = set()
        pl = itplace
        while pl[0] == 'L' and pl[2] in self.alias and pl[2] not in seen:
            seen.add(pl[2])
            pl = ('L', pl[1], self.alias[pl[2]])
            cands.append(pl)
        for ev in reversed(getattr(st, 'events', []) or []):
            if ev[0] == 'def' and ev[1] in cands:
                return ev[2]
        for c in cands:
            if c in self.iter_src:
                return self.iter_src[c]
        return None

    def is_composite(self, v, depth=0):
        if v is None or depth > 8:
            return False
        while v[0] in ('mut', 'cref') or (v[0] == 'ref' and isinstance(v[1], tuple) and v[1] and v[1][0] not in ('L', 'F', 'P', 'T', 'ST', 'STR', 'MEM')):
            v = v[1]
        if v[0] == 'pure':
            last = v[1].split('::')[-1]
            if last in ('chain', 'flat_map', 'once'):
                return True
            if last in ('map', 'copied', 'cloned', 'by_ref', 'fuse', 'peekable', 'into_iter') and v[2]:
                return self.is_composite(v[2][0], depth + 1)
        if v[0] == 'adt' and v[2] in ('Some', 'None') and 'option::Option' in v[1]:
            return True
        return False

    def iter_items(self, st, v, depth=0):
        """AST ('seq', [..]) | ('star', x) | ('opt', x) | ('val', term) for the elements an iterator value yields, in order; None when not understood"""
        if v is None or depth > 10:
            return None
        for _ in range(6):
            if v[0] in ('mut', 'cref'):
                v = v[1]
            elif v[0] == 'ref' and v[1][0] == 'L':
                try:
                    v = self.e.deref_value(st, v)
                except Exception:
                    return None
            else:
                break
        k = v[0]
        if k == 'adt' and 'option::Option' in v[1]:
            return ('seq', []) if v[2] == 'None' else ('val', v[3][0])
        if k == 'sliceiter' and (v[1][0] == 'CONST' or (v[1][0] == 'P' and v[1][1][0] == 'ref' and v[1][1][1][0] in ('MEM', 'STR') and not v[1][1][1][1])
                                 or (v[1][0] == 'P' and v[1][1][0] == 'cref' and v[1][1][1][0] == 'array' and not v[1][1][1][1])):
            return ('seq', [])            # iteration over a constant empty slice (`&[]` for an absent list)
        if k == 'sliceiter' or (k == 'pure' and v[1].split('::')[-1] in ('iter', 'keys', 'values') and v[2]) or \
                (k == 'pure' and v[1].split('::')[-1] == 'into_iter' and v[2] and not self.is_composite(v[2][0])):
            self._probe += 1
            key = ('ITP', self._probe)
            self.iter_src[key] = v
            if self.iter_source(st, key) is None:
                return None
            return ('star', ('val', ('ref', ('T', key, ('e', 'x', 0)))))
        if k != 'pure' or not v[2]:
            return None
        last = v[1].split('::')[-1]
        if last == 'once' and len(v[2]) == 1:
            return ('val', v[2][0])
        if last == 'chain' and len(v[2]) == 2:
            a, b = self.iter_items(st, v[2][0], depth + 1), self.iter_items(st, v[2][1], depth + 1)
            return None if a is None or b is None else ('seq', [a, b])
        if last in ('copied', 'cloned', 'by_ref', 'fuse', 'peekable', 'into_iter'):
            return self.iter_items(st, v[2][0], depth + 1)
        if last in ('map', 'flat_map') and len(v[2]) == 2:
            base = self.iter_items(st, v[2][0], depth + 1)
            if base is None:
                return None
            clos = v[2][1]

            def sub(ast):
                if ast[0] == 'val':
                    try:
                        outs = self.e.call_closure(st.copy(), clos, [ast[1]])
                    except Exception:
                        return None
                    if len(outs) != 1 or outs[0][1] == ('PANIC',):
                        return None
                    if last == 'map':
                        return ('val', outs[0][1])
                    return self.iter_items(outs[0][0], outs[0][1], depth + 1)
                if ast[0] == 'seq':
                    xs = [sub(x) for x in ast[1]]
                    return None if any(x is None for x in xs) else ('seq', xs)
                inner = sub(ast[1])
                return None if inner is None else (ast[0], inner)
            return sub(base)
        return None

    def items_regex(self, ast, leaf_fn):
        """emission regular expression (AST of regex_nfa) of a loop over a composite iterator: every leaf replaced by what the body emits for it"""
        if ast[0] == 'val':
            return leaf_fn(ast[1])
        if ast[0] == 'seq':
            xs = [self.items_regex(x, leaf_fn) for x in ast[1]]
            return None if any(x is None for x in xs) else ('seq', xs)
        inner = self.items_regex(ast[1], leaf_fn)
        return None if inner is None else (ast[0], inner)

    @staticmethod
    def symbols_ast(sy):
        out = []
        for x in sy:
            if isinstance(x, int):
                out.append(('lit', bytes([x])))
            elif isinstance(x, str):
                out.append(('sym', x[1:-1]))
            elif isinstance(x, tuple) and x and x[0] == 'ALT':
                alts = [Emission.symbols_ast(list(a)) for a in x[1]]
                if any(a is None for a in alts):
                    return None
                out.append(('alt', alts))
            elif isinstance(x, tuple) and x and x[0] == 'RX':
                out.append(x[1])
            else:
                return None
        return ('seq', out)

    def transparent_closure(self, st, clos):
        """|x| x.as_str() / x.as_ref() / &**x / x: the result designates the element itself"""
        probe = ('ref', ('T', ('PROBE', 0), ('e', 'probe', 0)))
        try:
            outs = self.e.call_closure(st.copy(), clos, [probe])
        except Exception:
            return False
        if len(outs) != 1:
            return False
        v = outs[0][1]
        for _ in range(10):
            if v == probe or v == ('slice', probe[1]):
                return True
            if v[0] in ('ref', 'cref') and isinstance(v[1], tuple):
                if v[0] == 'ref' and v[1] == probe[1]:
                    return True
                v = v[1]
            elif v[0] == 'pure' and v[1].split('::')[-1] in ('deref', 'as_str', 'as_ref', 'borrow', 'as_deref', 'clone') and len(v[2]) == 1:
                v = v[2][0]
            elif v[0] == 'slice' and v[1] == probe[1]:
                return True
            else:
                return False
        return False

    def role_name(self, path):
        """turn a structural path (field indices, some, elem) into a type-based role string"""
        cur = self.self_adt
        out = []
        for step in path:
            if step[0] == 'f':
                fs = terms.struct_fields(self.prog.facts, cur)
                if fs is None or step[1] >= len(fs):
                    # tuple (map entry): .0 key .1 value
                    if cur.startswith('std::boxed::Box<') or cur.startswith('std::vec::Vec<'):
                        continue      # internals of the owning pointer (Box deref in MIR): the same collection
                    if cur.startswith('('):
                        parts = pxm.PX.split_top(cur[1:-1])
                        if step[1] < len(parts):
                            out.append('key' if step[1] == 0 else 'val')
                            cur = terms.norm_ty(parts[step[1]])
                            continue
                    return None
                fty = terms.norm_ty(fs[step[1]]['ty'])
                if len(fs) > 1 or cur == self.self_adt:
                    out.append(simple_ty(fty))
                cur = fty
            elif step[0] == 'some':
                m = re.match(r'^std::option::Option<(.*)>$', cur)
                if m:
                    cur = terms.norm_ty(m.group(1))
            elif step[0] == 'elem':
                out.append('elem')
                m = re.match(r'^std::vec::Vec<(.*)>$', cur) or re.match(r'^std::boxed::Box<\[(.*)\]>$', cur) or re.match(r'^\[(.*)\]$', cur)
                if m:
                    cur = terms.norm_ty(m.group(1))
                else:
                    m = re.match(r'^std::collections::BTreeMap<(.*)>$', cur)
                    if m:
                        kv = pxm.PX.split_top(m.group(1))
                        cur = '(%s, %s)' % (terms.norm_ty(kv[0]), terms.norm_ty(kv[1]))
                    else:
                        return None
            elif step[0] in ('keys', 'values'):
                out.append(step[0])
        return '.'.join(out) if out else 'self'

    def peel(self, s, v):
        for _ in range(4):
            if v[0] == 'cref':
                v = v[1]
            elif v[0] == 'ref' and v[1][0] == 'L':
                try:
                    v = self.e.deref_value(s.state, v)
                except Exception:
                    break
            elif v[0] == 'mut':
                v = v[1]
            else:
                break
        return v

    def closure_emission(self, s, clos, elem):
        """what one application of a try_for_each closure to `elem` emits, as a regex AST (alternatives over its Ok paths)"""
        if clos[0] != 'closure' or clos[1] not in self.prog.bodies:
            return None
        st2 = s.state.copy()
        n0 = len(st2.events)
        try:
            outs = self.e._run(st2, clos[1], [('cref', clos) if str(self.prog.bodies[clos[1]]['mir']['locals'][1]).lstrip().startswith('&') else clos, elem], 2)
        except Exception:
            return None
        alts = []
        for s3, rv in outs:
            if rv == ('PANIC',):
                return None
            if rv[0] == 'adt' and rv[2] == 'Err':
                continue
            fake = pxm.Segment(s.src, s.dst, s3, rv, s3.events[n0:], 'return')
            sy = self.symbols(fake)
            if sy is None:
                return None
            a = self.symbols_ast(sy)
            if a is None:
                return None
            alts.append(a)
        if not alts:
            return None
        return alts[0] if len(alts) == 1 else ('alt', alts)

    def star_of(self, s, itv, clos):
        """symbol sequences one application of a try_for_each closure can emit; [] when the iterated collection is a constant empty slice"""
        e = self.e
        v = itv
        for _ in range(4):
            if v[0] == 'cref':
                v = v[1]
            elif v[0] == 'ref':
                try:
                    v = e.deref_value(s.state, v)
                except Exception:
                    break
            elif v[0] == 'mut':
                v = v[1]
            else:
                break
        if v[0] == 'sliceiter' and v[1][0] == 'CONST':
            return []
        if v[0] == 'sliceiter' and v[1][0] == 'P' and v[1][1][0] == 'ref' and v[1][1][1][0] in ('MEM', 'STR') and not v[1][1][1][1]:
            return []
        if clos[0] != 'closure' or clos[1] not in self.prog.bodies:
            self.problems.append('try_for_each with %s' % e.short(clos, 60))
            return None
        key = ('TFE', clos[1])
        self.iter_src[key] = v
        elem = ('ref', ('T', key, ('e', 'x', 0)))
        st2 = s.state.copy()
        n0 = len(st2.events)
        try:
            outs = e._run(st2, clos[1], [clos, elem], 2)
        except Exception as ex:
            self.problems.append('try_for_each closure: %s' % ex)
            return None
        seqs = []
        for s3, rv in outs:
            if rv == ('PANIC',):
                self.problems.append('try_for_each closure can panic')
                return None
            if rv[0] == 'adt' and rv[2] == 'Err':
                continue
            fake = pxm.Segment(s.src, s.dst, s3, rv, s3.events[n0:], 'return')
            sy = self.symbols(fake)
            if sy is None:
                return None
            if any(not isinstance(x, (int, str)) for x in sy):
                self.problems.append('nested repetition inside try_for_each')
                return None
            seqs.append(tuple(sy))
        return sorted(set(seqs))

    # ---- symbols of one segment
    def symbols(self, s):
        """list of symbols (ints for literal bytes, strings '<role>' for values); None + problem when not understood"""
        out = []
        e = self.e
        for ev in s.events:
            if ev[0] != 'call':
                continue
            name = ev[1]
            args = ev[2]
            if name.endswith("Formatter::<'a>::write_str") or name.endswith('Write::write_str') or name.endswith('::write_str'):
                lit = models.literal_of(e, s.state, args[1])
                if lit is not None:
                    out.extend(lit)
                else:
                    r = self.role_of(s.state, args[1])
                    nm = self.role_name(r) if r is not None else None
                    if nm is None:
                        self.problems.append('write_str of %s' % e.short(args[1], 100))
                        return None
                    out.append('<%s>' % nm)
            elif name.endswith('::write_char'):
                if args[1][0] == 'int':
                    out.extend(chr(args[1][1]).encode())
                else:
                    self.problems.append('write_char of a non-constant')
                    return None
            elif name in self.opaque or (name.endswith('::fmt') and 'fmt::Display' in name):
                r = self.role_of(s.state, args[0])
                nm = self.role_name(r) if r is not None else None
                if nm is None:
                    self.problems.append('Display::fmt of %s' % e.short(args[0], 100))
                    return None
                if nm == 'Language' and 'Language as std::fmt::Display' in name:
                    # the nested printer of the language subtag is 'und' | text (its own grammar, checked separately): expand it, so that
                    # an implementation that inlines `language.as_str()` yields the same automaton
                    out.append(('ALT', ((0x75, 0x6E, 0x64), ('<%s>' % nm,))))
                else:
                    out.append('<%s>' % nm)
            elif name in self.prog.bodies and self.prog.has_loops(name) and self.depth < 3 \
                    and any('fmt::Formatter' in t for t in (self.prog.bodies[name].get('sig') or {}).get('inputs', [])):
                # a repository helper with loops that receives the formatter: its emission automaton is embedded at this point
                roles = {}
                for i, a in enumerate(args):
                    r = self.role_of(s.state, a)
                    if r is not None:
                        roles[i + 1] = r
                try:
                    sub = Emission(self.prog, name, self.self_adt, param_roles=roles, depth=self.depth + 1)
                except pxm.Limit as ex:
                    self.problems.append('printing helper %s: %s' % (name.split('::')[-1], ex))
                    return None
                res = segment_nfa(sub)
                if res is None or res[1]:
                    self.problems.append('printing helper %s: %s' % (name.split('::')[-1], (res[1][0] if res else 'no entry segment')))
                    return None
                self.subs.append(sub)
                out.append(('SUB', res[0], name))
            elif re.search(r'iter::Iterator::try_for_each$|as std::iter::Iterator>::try_for_each$', name) and len(args) == 2 and self.is_composite(self.peel(s, args[0])):
                items = self.iter_items(s.state, self.peel(s, args[0]))
                rx = self.items_regex(items, lambda t: self.closure_emission(s, args[1], t)) if items is not None else None
                if rx is None:
                    self.problems.append('try_for_each over %s' % e.short(args[0], 100))
                    return None
                out.append(('RX', rx))
            elif re.search(r'iter::Iterator::try_for_each$|as std::iter::Iterator>::try_for_each$', name) and len(args) == 2:
                star = self.star_of(s, args[0], args[1])
                if star is None:
                    return None
                if star:
                    out.append(('STAR', tuple(star)))
            elif name.endswith('::write_fmt'):
                a = args[1]
                if a[0] == 'pure' and a[1].endswith('Arguments::<\'a>::from_str'):
                    lit = models.literal_of(e, s.state, a[2][0])
                    if lit is None:
                        self.problems.append('format string not constant')
                        return None
                    out.extend(lit)
                    continue
                if not (a[0] == 'pure' and a[1].endswith("Arguments::<'a>::new") and len(a[2]) == 2):
                    self.problems.append('write_fmt of %s' % e.short(a, 100))
                    return None
                tpl = a[2][0]
                tb = tpl[1][1] if tpl[0] == 'ref' and tpl[1][0] == 'MEM' else None
                pieces = template_pieces(tb) if tb is not None else None
                arr = a[2][1]
                while arr[0] in ('cref', 'ref') and isinstance(arr[1], tuple):
                    arr = arr[1]
                if pieces is None or arr[0] != 'array':
                    self.problems.append('format template not understood: %r' % (tb,))
                    return None
                fargs = list(arr[1])
                ai = 0
                for p in pieces:
                    if p[0] == 'lit':
                        out.extend(p[1])
                    else:
                        if ai >= len(fargs):
                            self.problems.append('format placeholder without argument')
                            return None
                        fa = fargs[ai]
                        ai += 1
                        if not (fa[0] == 'pure' and fa[1].endswith('new_display') and len(fa[2]) == 1):
                            self.problems.append('format argument is not Display: %s' % e.short(fa, 80))
                            return None
                        r = self.role_of(s.state, fa[2][0])
                        nm = self.role_name(r) if r is not None else None
                        if nm is None:
                            self.problems.append('formatted value %s' % e.short(fa[2][0], 100))
                            return None
                        out.append('<%s>' % nm)
            elif 'Formatter' in name and re.search(r'::(pad|debug_\w+|write_\w+)$', name):
                self.problems.append('formatter call %s' % name.split('::')[-1])
                return None
        return out


def ast_syms(ast, out=None):
    """role symbols occurring in a regex AST"""
    out = out if out is not None else set()
    if ast[0] == 'sym':
        out.add('<%s>' % ast[1])
    elif ast[0] in ('seq', 'alt'):
        for x in ast[1]:
            ast_syms(x, out)
    elif ast[0] in ('star', 'opt'):
        ast_syms(ast[1], out)
    return out


def is_err_ret(s):
    return s.kind == 'return' and s.ret is not None and s.ret[0] == 'adt' and s.ret[2] == 'Err'


def segment_nfa(em):
    """NFA over the segments that can lead to an Ok return; -> (nfa, problems)"""
    n = NFA()
    ids = {}

    def node(x):
        if x not in ids:
            ids[x] = n.new() if ids else n.start
        return ids[x]
    entry = None
    for s in em.segs:
        if s.src[0] == 'entry':
            entry = s.src
    if entry is None:
        return None
    node(entry)
    bad = []
    # `for x in <composite iterator> { body }`: the body segments (head -> same head, an element was fetched) are templates; the loop as a whole
    # emits the regular expression of the iterator's element sequence with every element replaced by what the body emits for it
    composite_heads = {}
    for s in em.segs:
        if s.kind == 'loop' and s.src == s.dst and s.src[0] == 'head':
            nx = [ev for ev in s.events if ev[0] == 'next']
            if len(nx) == 1 and s.facts.get(('tag', ('has', nx[0][1], nx[0][2]))) == 'pos':
                itv = em.iter_value(s.state, nx[0][1])
                if em.is_composite(itv):
                    composite_heads.setdefault(s.src, (nx[0][1], itv, []))[2].append(s)
    done_heads = set()
    for H, (it, itv, bodies) in composite_heads.items():
        st0 = bodies[0].state
        items = em.iter_items(st0, itv)

        def leaf(t, it=it, bodies=bodies):
            alts = []
            for bs in bodies:
                em.elem_subst[it] = t
                try:
                    sy = em.symbols(bs)
                finally:
                    em.elem_subst.pop(it, None)
                a = em.symbols_ast(sy) if sy is not None else None
                if a is None:
                    return None
                alts.append(a)
            return alts[0] if len(alts) == 1 else ('alt', alts)
        rx = em.items_regex(items, leaf) if items is not None else None
        if rx is None:
            bad.append('loop over %s' % em.e.short(itv, 100))
            continue
        em.composite_ok.add(it)
        em.composite_rx[H] = rx
        n.chain(node(H), [('RX', rx)], node(('post', H)))
        done_heads.add(H)
    for s in em.segs:
        if s.kind == 'panic' or is_err_ret(s) or s.kind == 'unreachable':
            continue
        if s.src in done_heads and s.src == s.dst:
            continue                      # body template of a composite loop
        sy = em.symbols(s)
        if sy is None:
            bad.append(em.problems[-1] if em.problems else 'segment not understood')
            continue
        a = node(('post', s.src)) if s.src in done_heads else node(s.src)
        if s.kind == 'return':
            b = node(('return',))
        else:
            b = node(s.dst)
        n.chain(a, sy, b)
    n.accept = {node(('return',))}
    return n, bad


# ---------------------------------------------------------------------------------------------------------------
# tiny regex -> NFA, NFA determinisation, language equality

class NFA:
    def __init__(self):
        self.n = 0
        self.eps = {}
        self.tr = {}
        self.start = self.new()
        self.accept = set()

    def new(self):
        self.n += 1
        return self.n - 1

    def add(self, a, sym, b):
        if sym is None:
            self.eps.setdefault(a, set()).add(b)
        else:
            self.tr.setdefault((a, sym), set()).add(b)

    def chain(self, a, syms, b):
        cur = a
        for i, sy in enumerate(syms):
            nxt = b if i == len(syms) - 1 else self.new()
            if isinstance(sy, tuple) and sy and sy[0] == 'ALT':
                for alt in sy[1]:
                    self.chain(cur, list(alt), nxt)
            elif isinstance(sy, tuple) and sy and sy[0] in ('SUB', 'RX'):
                sub = sy[1] if sy[0] == 'SUB' else regex_nfa(sy[1])
                m = {}
                for q in range(sub.n):
                    m[q] = self.new()
                for q, ts in sub.eps.items():
                    for t in ts:
                        self.add(m[q], None, m[t])
                for (q, sym), ts in sub.tr.items():
                    for t in ts:
                        self.add(m[q], sym, m[t])
                self.add(cur, None, m[sub.start])
                for q in sub.accept:
                    self.add(m[q], None, nxt)
            elif isinstance(sy, tuple) and sy and sy[0] == 'STAR':
                m = self.new()
                self.add(cur, None, m)
                for seq in sy[1]:
                    if seq:
                        self.chain(m, list(seq), m)
                self.add(m, None, nxt)
            else:
                self.add(cur, sy, nxt)
            cur = nxt
        if not syms:
            self.add(a, None, b)

    def closure(self, S):
        st = list(S)
        out = set(S)
        while st:
            x = st.pop()
            for y in self.eps.get(x, ()):
                if y not in out:
                    out.add(y)
                    st.append(y)
        return frozenset(out)

    def alphabet(self):
        return set(sym for (_, sym) in self.tr)

    def step(self, S, sym):
        out = set()
        for x in S:
            out |= self.tr.get((x, sym), set())
        return self.closure(out)


def regex_nfa(ast):
    """ast: ('seq', [..]) | ('alt', [..]) | ('star', x) | ('opt', x) | ('lit', bytes) | ('sym', name)"""
    n = NFA()

    def build(a, s, t):
        k = a[0]
        if k == 'lit':
            n.chain(s, list(a[1]), t)
        elif k == 'sym':
            n.chain(s, ['<%s>' % a[1]], t)
        elif k == 'seq':
            cur = s
            for i, x in enumerate(a[1]):
                nxt = t if i == len(a[1]) - 1 else n.new()
                build(x, cur, nxt)
                cur = nxt
            if not a[1]:
                n.add(s, None, t)
        elif k == 'alt':
            for x in a[1]:
                build(x, s, t)
        elif k == 'opt':
            n.add(s, None, t)
            build(a[1], s, t)
        elif k == 'star':
            m = n.new()
            n.add(s, None, m)
            n.add(m, None, t)
            m2 = n.new()
            build(a[1], m, m2)
            n.add(m2, None, m)
    end = n.new()
    build(ast, n.start, end)
    n.accept = {end}
    return n


def equivalent(A, B, limit=20000):
    """language equality of two NFAs; -> (True, None) | (False, witness symbol list, which side accepts)"""
    alpha = sorted(A.alphabet() | B.alphabet(), key=repr)
    sa, sb = A.closure({A.start}), B.closure({B.start})
    seen = {(sa, sb): None}
    work = [(sa, sb)]
    parent = {}
    while work:
        x, y = work.pop(0)
        ax, ay = bool(x & A.accept), bool(y & B.accept)
        if ax != ay:
            w = []
            cur = (x, y)
            while cur in parent:
                cur, sym = parent[cur]
                w.append(sym)
            return False, list(reversed(w)), 'code' if ax else 'spec'
        for sym in alpha:
            nx, ny = A.step(x, sym), B.step(y, sym)
            if not nx and not ny:
                continue
            if (nx, ny) not in seen:
                seen[(nx, ny)] = True
                parent[(nx, ny)] = ((x, y), sym)
                work.append((nx, ny))
                if len(seen) > limit:
                    return False, ['(state limit)'], 'limit'
    return True, None, None


def show(word):
    out = ''
    for s in word:
        if isinstance(s, int):
            out += chr(s)
        elif isinstance(s, tuple) and s and s[0] == 'ALT':
            out += '(' + '|'.join(show(a) for a in s[1]) + ')'
        elif isinstance(s, tuple) and s and s[0] == 'STAR':
            out += '(' + '|'.join(show(a) for a in s[1]) + ')*'
        elif isinstance(s, tuple) and s and s[0] == 'SUB':
            out += '{%s}' % s[2].split('::')[-1]
        elif isinstance(s, tuple) and s and s[0] == 'RX':
            out += '{..}'
        else:
            out += str(s)
    return out
