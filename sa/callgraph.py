"""CG — resolved call graph over the repository bodies of one configuration (DESIGN §3.1)."""
import re
from . import px as pxm


class CallGraph:
    def __init__(self, program):
        self.p = program
        self.bodies = program.bodies
        self.edges = {}      # fn -> set(repo fn)
        self.ext = {}        # fn -> list of (external callee, span, block)
        self.sites = {}      # fn -> list of call terminators (block idx, term)
        helper = pxm.PX(program)
        for fn, b in self.bodies.items():
            es, xs, sites = set(), [], []
            blocks = b['mir']['blocks']
            for bi, blk in enumerate(blocks):
                if blk['cleanup']:
                    continue
                for s in blk['stmts']:
                    if s['k'] == 'assign' and s['rv']['k'] == 'agg' and s['rv']['kind'].get('agg') == 'closure':
                        d = s['rv']['kind']['def']
                        if d in self.bodies:
                            es.add(d)
                    # function items used as values (passed to combinators)
                    if s['k'] == 'assign':
                        for o in operands_of_rv(s['rv']):
                            c = o.get('const') if isinstance(o, dict) else None
                            if c and 'fn' in c and c['fn'] in self.bodies:
                                es.add(c['fn'])
                t = blk['term']
                if t['k'] == 'call':
                    sites.append((bi, t))
                    name = t['r'] or t['f']
                    tgt = helper.resolve(name, t, [])
                    if tgt is not None and tgt in self.bodies:
                        es.add(tgt)
                    else:
                        xs.append((name, t['sp'], bi, t))
                        # formatting machinery calls back into the repository: ToString::to_string::<T> and
                        # Argument::new_display::<T> reach <T as Display>::fmt
                        if name.endswith('as std::string::ToString>::to_string') or name.endswith('Argument::<\'_>::new_display') \
                                or name.endswith('Argument::<\'_>::new_debug'):
                            tr = 'fmt::Debug' if name.endswith('new_debug') else 'fmt::Display'
                            for ty in ga_types(t):
                                d = self.find_impl_fn(ty, tr, 'fmt')
                                if d:
                                    es.add(d)
                        # other std machinery that calls back into repository impls of std traits: the formatting driver writes through the
                        # `fmt::Write` impl of the sink it was given, iterator adaptors and consumers pull from the `Iterator` impl they wrap
                        for pat, traits in CALLBACKS:
                            if re.search(pat, name):
                                for d in self.callback_items(t.get('ga', ''), traits):
                                    es.add(d)
                    for a in t['args']:
                        c = a.get('const')
                        if c and 'fn' in c and c['fn'] in self.bodies:
                            es.add(c['fn'])
            self.edges[fn] = es
            self.ext[fn] = xs
            self.sites[fn] = sites

    def callback_items(self, ga, trait_suffixes):
        """items of hand-written impls of the given std traits for a workspace type mentioned in the generic arguments of an external call"""
        out = []
        if not ga:
            return out
        for imp in self.p.facts.impls:
            if imp.get('derived') or not any(imp['trait_def'].endswith(x) for x in trait_suffixes):
                continue
            base = re.sub(r'<.*$', '', imp['self_ty']).lstrip('&').strip()
            if base and re.search(r'(^|[^\w:])(\w+::)*' + re.escape(base.split('::')[-1]) + r'\b', ga) and (base in ga or base.split('::')[-1] in ga):
                out.extend(it for it in imp['items'] if it in self.bodies)
        return out

    def find_impl_fn(self, ty, trait_suffix, item):
        ty = ty.lstrip('&').strip()
        for imp in self.p.facts.impls:
            if imp['trait_def'].endswith(trait_suffix) and pxm.PX.ty_eq(imp['self_ty'], ty):
                for it in imp['items']:
                    if it.endswith('::' + item) and it in self.bodies:
                        return it
        return None

    def reachable(self, roots):
        seen = set()
        st = list(roots)
        while st:
            x = st.pop()
            if x in seen or x not in self.edges:
                continue
            seen.add(x)
            st.extend(self.edges[x])
        return seen

    def recursive_sccs(self, nodes):
        nodes = set(nodes)
        index, low, onst, stack, out = {}, {}, set(), [], []
        counter = [0]
        import sys
        sys.setrecursionlimit(10000)

        def strong(v):
            index[v] = low[v] = counter[0]
            counter[0] += 1
            stack.append(v)
            onst.add(v)
            for w in self.edges.get(v, ()):
                if w not in nodes:
                    continue
                if w not in index:
                    strong(w)
                    low[v] = min(low[v], low[w])
                elif w in onst:
                    low[v] = min(low[v], index[w])
            if low[v] == index[v]:
                comp = []
                while True:
                    w = stack.pop()
                    onst.discard(w)
                    comp.append(w)
                    if w == v:
                        break
                if len(comp) > 1 or v in self.edges.get(v, ()):
                    out.append(comp)
        for n in sorted(nodes):
            if n not in index:
                strong(n)
        return out

    def path(self, roots, target):
        """one call chain root -> target (for reports)"""
        prev = {}
        st = list(roots)
        for r in roots:
            prev[r] = None
        while st:
            x = st.pop(0)
            if x == target:
                chain = []
                while x is not None:
                    chain.append(x)
                    x = prev[x]
                return list(reversed(chain))
            for y in sorted(self.edges.get(x, ())):
                if y not in prev:
                    prev[y] = x
                    st.append(y)
        return None


CALLBACKS = [
    (r'fmt::(Write::write_fmt|write)$', ('fmt::Write',)),
    (r'io::(Write::write_fmt|Write::write_all|copy)$', ('io::Write', 'io::Read')),
    (r'(^|::)iter::|Iterator|::collect$|::extend$|::from_iter$', ('iter::Iterator', 'iter::DoubleEndedIterator', 'iter::ExactSizeIterator', 'iter::IntoIterator', 'iter::FromIterator', 'iter::Extend')),
    (r'hash::Hash|hash::BuildHasher|Hasher', ('hash::Hasher',)),
]


def ga_types(t):
    s = t.get('ga', '').strip()
    if s.startswith('[') and s.endswith(']'):
        s = s[1:-1]
    return [x.strip() for x in pxm.PX.split_top(s)]


def operands_of_rv(rv):
    k = rv['k']
    if k in ('use', 'cast', 'un', 'repeat'):
        return [rv['o']]
    if k == 'bin':
        return [rv['a'], rv['b']]
    if k == 'agg':
        return rv['ops']
    return []
