"""TAB — table/data rules (DESIGN §3.13): the compiled statics against an independent derivation from the CLDR JSON."""
import json
import os
import re
from . import facts as factsmod

LIKELY_JSON = 'unic-langid-impl/data/likelySubtags.json'
LAYOUT_DIR = 'unic-langid-impl/data/cldr-misc-full/main'


# ---------------------------------------------------------------------------------------------------------------
# independent reading of CLDR identifiers (written here from UTS #35; the repository's parser is not used)

def parse_cldr_id(s):
    """'az-Arab-IR' / 'und-419' / 'ca-ES-valencia' -> (language|None, script|None, region|None, [variants])"""
    parts = re.split(r'[-_]', s)
    lang = parts[0]
    if not (lang.isalpha() and lang.isascii() and len(lang) in (2, 3, 5, 6, 7, 8)):
        raise ValueError('bad language in %r' % s)
    lang = lang.lower()
    i = 1
    script = region = None
    if i < len(parts) and len(parts[i]) == 4 and parts[i].isalpha():
        script = parts[i][0].upper() + parts[i][1:].lower()
        i += 1
    if i < len(parts) and ((len(parts[i]) == 2 and parts[i].isalpha()) or (len(parts[i]) == 3 and parts[i].isdigit())):
        region = parts[i].upper()
        i += 1
    variants = []
    while i < len(parts):
        p = parts[i]
        if (5 <= len(p) <= 8 and p.isalnum()) or (len(p) == 4 and p[0].isdigit() and p.isalnum()):
            variants.append(p.lower())
            i += 1
        else:
            raise ValueError('bad subtag %r in %r' % (p, s))
    return (None if lang == 'und' else lang), script, region, variants


def enc(text, width, order='little'):
    b = text.encode('ascii')
    assert len(b) <= width
    return int.from_bytes(b + b'\0' * (width - len(b)), order)


def dec(n, width, order='little'):
    """-> bytes with trailing NULs stripped, or None if the integer does not fit / has an embedded NUL"""
    if n < 0 or n >= 1 << (8 * width):
        return None
    b = n.to_bytes(width, order)
    t = b.rstrip(b'\0')
    if b'\0' in t:
        return None
    return t


def derive_likely(repo, order='little'):
    """expected contents of the six tables + version, derived from likelySubtags.json"""
    with open(os.path.join(repo, LIKELY_JSON)) as f:
        j = json.load(f)
    ls = j['supplemental']['likelySubtags']
    version = j['supplemental']['version']['_cldrVersion']
    tabs = {'LANG_ONLY': {}, 'LANG_REGION': {}, 'LANG_SCRIPT': {}, 'SCRIPT_REGION': {}, 'SCRIPT_ONLY': {}, 'REGION_ONLY': {}}
    problems = []
    for k, v in ls.items():
        try:
            kl, ks, kr, kv = parse_cldr_id(k)
            vl, vs, vr, vv = parse_cldr_id(v)
        except ValueError as ex:
            problems.append(str(ex))
            continue
        if kv or vv:
            problems.append('variants in likelySubtags entry %r' % k)
            continue
        if vr == 'ZZ':
            vr = None
        val = (enc(vl, 8, order) if vl else None, enc(vs, 4, order) if vs else None, enc(vr, 4, order) if vr else None)
        text = (k, v)
        if kl is None and ks is None and kr is None:
            tabs['LANG_ONLY'][(enc('und', 8, order),)] = (val, text)
        elif kl and not ks and not kr:
            tabs['LANG_ONLY'][(enc(kl, 8, order),)] = (val, text)
        elif kl and not ks and kr:
            tabs['LANG_REGION'][(enc(kl, 8, order), enc(kr, 4, order))] = (val, text)
        elif kl and ks and not kr:
            tabs['LANG_SCRIPT'][(enc(kl, 8, order), enc(ks, 4, order))] = (val, text)
        elif not kl and ks and kr:
            tabs['SCRIPT_REGION'][(enc(ks, 4, order), enc(kr, 4, order))] = (val, text)
        elif not kl and ks:
            tabs['SCRIPT_ONLY'][(enc(ks, 4, order),)] = (val, text)
        elif not kl and kr:
            tabs['REGION_ONLY'][(enc(kr, 4, order),)] = (val, text)
        else:
            problems.append('CLDR key %r has language, script and region: no table holds it' % k)
    return tabs, version, problems, ls


def derive_layout(repo, order='little'):
    base = os.path.join(repo, LAYOUT_DIR)
    locales = {}
    for d in sorted(os.listdir(base)):
        p = os.path.join(base, d, 'layout.json')
        if not os.path.exists(p):
            continue
        with open(p) as f:
            j = json.load(f)
        key = next(iter(j['main'].keys()))
        if key == 'root':
            continue
        co = j['main'][key]['layout']['orientation']['characterOrder']
        locales[key] = {'right-to-left': 'RTL', 'left-to-right': 'LTR', 'top-to-bottom': 'TTB'}[co]
    sets = {'LTR': set(), 'RTL': set(), 'TTB': set(), 'LANGS_RTL': set()}
    text = {'LTR': {}, 'RTL': {}, 'TTB': {}, 'LANGS_RTL': {}}
    for key, d in locales.items():
        l, s, r, v = parse_cldr_id(key)
        if s:
            sets[d].add(enc(s, 4, order))
            text[d][enc(s, 4, order)] = s
        if d == 'RTL':
            sets['LANGS_RTL'].add(enc(l, 8, order))
            text['LANGS_RTL'][enc(l, 8, order)] = l
    return sets, text, locales


# ---------------------------------------------------------------------------------------------------------------
# the compiled statics, from the data facts (type-checked HIR literal trees)

_CONSTS = {}       # named integer constants of the crate (path -> value), filled from the data facts: `Some(LATN)` is the number LATN denotes


def lit_int(x):
    if isinstance(x, str) and x.isdigit():
        return int(x)
    if isinstance(x, dict) and 'path' in x and x['path'] in _CONSTS:
        return _CONSTS[x['path']]
    raise ValueError('non-literal %r' % (x,))


def lit_opt(x):
    if isinstance(x, dict) and 'call' in x and re.search(r'::Some$', x['call']) and len(x['args']) == 1:
        return lit_int(x['args'][0])
    if isinstance(x, dict) and 'path' in x and re.search(r'::None$', x['path']):
        return None
    raise ValueError('not an Option literal %r' % (x,))


TABLE_TYPES = {
    '(u64, (std::option::Option<u64>, std::option::Option<u32>, std::option::Option<u32>))': ('k64',),
    '(u64, u32, (std::option::Option<u64>, std::option::Option<u32>, std::option::Option<u32>))': ('k64', 'k32'),
    '(u32, u32, (std::option::Option<u64>, std::option::Option<u32>, std::option::Option<u32>))': ('k32', 'k32'),
    '(u32, (std::option::Option<u64>, std::option::Option<u32>, std::option::Option<u32>))': ('k32',),
}


def is_script_text(b):
    return b is not None and len(b) == 4 and b.isalpha()


def is_region_text(b):
    return b is not None and ((len(b) == 2 and b.isalpha()) or (len(b) == 3 and b.isdigit()))


def is_lang_text(b):
    return b is not None and len(b) in (2, 3, 5, 6, 7, 8) and b.isalpha()


class CompiledTables:
    """role -> dict(name, declared_len, rows=[(keytuple, valtuple)]) resolved by element type and decoded key shapes"""

    def __init__(self, facts, order='little'):
        self.facts = facts
        self.roles = {}
        self.errors = []
        self.version = None
        self.direction = {}
        cands = []
        _CONSTS.clear()
        for name, d in facts.data.items():
            if isinstance(d.get('v'), str) and d['v'].isdigit() and d['kind'].startswith('Const') and re.match(r'^(u8|u16|u32|u64|u128|usize)$', d['ty']):
                _CONSTS[name] = int(d['v'])
        for name, d in facts.data.items():
            if not name.startswith('unic_langid_impl::'):
                continue
            m = re.match(r'^\[(.*); (\d+)\]$', d['ty'])
            if m and m.group(1) in TABLE_TYPES and d['kind'].startswith('Static'):
                cols = TABLE_TYPES[m.group(1)]
                rows = []
                try:
                    for r in d['v']:
                        keys = tuple(lit_int(x) for x in r[:len(cols)])
                        v = r[len(cols)]
                        rows.append((keys, (lit_opt(v[0]), lit_opt(v[1]), lit_opt(v[2]))))
                except (ValueError, TypeError, IndexError) as ex:
                    self.errors.append('%s: initialiser is not a literal table: %s' % (name, ex))
                    continue
                cands.append((name, cols, int(m.group(2)), rows, d['span']))
            elif m and m.group(1) in ('u32', 'u64') and d['kind'].startswith(('Const', 'Static')):
                try:
                    # the compiler's own evaluation of the initialiser when it is there (so `u32::from_le_bytes(*b"Mong")` is the number it denotes);
                    # where the HIR initialiser is a plain literal array both readings must agree
                    ev = [int(x) for x in d['ev']] if isinstance(d.get('ev'), list) else None
                    try:
                        lits = [lit_int(x) for x in d['v']]
                    except (ValueError, TypeError):
                        lits = None
                        if ev is None:
                            raise
                    if ev is not None and lits is not None and ev != lits:
                        self.errors.append('%s: literal initialiser and const-evaluated value disagree' % name)
                        continue
                    self.direction[name] = (m.group(1), int(m.group(2)), ev if ev is not None else lits, d['span'])
                except (ValueError, TypeError) as ex:
                    self.errors.append('%s: initialiser is not a literal array: %s' % (name, ex))
            elif d['ty'] in ('&str', "&'static str") and d['kind'].startswith('Static') and isinstance(d['v'], str):
                if self.version is None:
                    self.version = (name, d['v'], d['span'])
                else:
                    self.errors.append('more than one &str static: %s and %s' % (self.version[0], name))
        for name, cols, n, rows, span in cands:
            role = None
            k0 = [dec(r[0][0], 8 if cols[0] == 'k64' else 4, order) for r in rows]
            k1 = [dec(r[0][1], 4, order) for r in rows] if len(cols) == 2 else None
            if cols == ('k64',):
                role = 'LANG_ONLY'
            elif cols == ('k64', 'k32'):
                if all(is_script_text(x) for x in k1):
                    role = 'LANG_SCRIPT'
                elif all(is_region_text(x) for x in k1):
                    role = 'LANG_REGION'
            elif cols == ('k32', 'k32'):
                role = 'SCRIPT_REGION'
            elif cols == ('k32',):
                if all(is_script_text(x) for x in k0):
                    role = 'SCRIPT_ONLY'
                elif all(is_region_text(x) for x in k0):
                    role = 'REGION_ONLY'
            if role is None:
                self.errors.append('%s: cannot resolve the role of this table from its key columns' % name)
            elif role in self.roles:
                self.errors.append('two tables resolve to role %s: %s and %s' % (role, self.roles[role]['name'], name))
            else:
                self.roles[role] = dict(name=name, cols=cols, declared_len=n, rows=rows, span=span)

    def direction_roles(self, expected_sets):
        """resolve LTR/RTL/TTB/LANGS_RTL constants: the u64 array is LANGS_RTL; u32 arrays by best overlap with the
        derived sets (names are not used)"""
        out = {}
        u32s = {n: v for n, v in self.direction.items() if v[0] == 'u32'}
        u64s = {n: v for n, v in self.direction.items() if v[0] == 'u64'}
        if len(u64s) == 1:
            out['LANGS_RTL'] = next(iter(u64s.items()))
        used = set()
        for role in ('LTR', 'RTL', 'TTB'):
            best, bestscore = None, -1
            for n, v in u32s.items():
                if n in used:
                    continue
                score = len(set(v[2]) & expected_sets[role]) * 2 - len(set(v[2]) ^ expected_sets[role])
                if score > bestscore:
                    best, bestscore = n, score
            if best is not None:
                out[role] = (best, u32s[best])
                used.add(best)
        return out
