"""CFG utilities over the JSON MIR: successors (cleanup/unwind edges are not in the dump), dominators, natural
loops, SCCs, loop-modified locals."""


def succs_of_term(t):
    k = t['k']
    if k == 'goto':
        return [t['t']]
    if k == 'switch':
        out = []
        for _, b in t['t']:
            if b not in out:
                out.append(b)
        if t['else'] not in out:
            out.append(t['else'])
        return out
    if k in ('call', 'assert', 'drop'):
        return [t['t']] if t['t'] is not None and t['t'] >= 0 else []
    return []


class CFG:
    def __init__(self, mir):
        self.mir = mir
        self.blocks = mir['blocks']
        n = len(self.blocks)
        self.succ = [succs_of_term(b['term']) for b in self.blocks]
        # reachable, non-cleanup
        self.reach = set()
        st = [0]
        while st:
            x = st.pop()
            if x in self.reach:
                continue
            self.reach.add(x)
            st.extend(self.succ[x])
        self.pred = {i: [] for i in range(n)}
        for a in self.reach:
            for b in self.succ[a]:
                self.pred[b].append(a)
        self._dom = None
        self._loops = None

    def rpo(self):
        seen, order = set(), []

        def dfs(x):
            stack = [(x, iter(self.succ[x]))]
            seen.add(x)
            while stack:
                node, it = stack[-1]
                adv = False
                for y in it:
                    if y not in seen:
                        seen.add(y)
                        stack.append((y, iter(self.succ[y])))
                        adv = True
                        break
                if not adv:
                    order.append(node)
                    stack.pop()
        dfs(0)
        order.reverse()
        return order

    def dominators(self):
        if self._dom is not None:
            return self._dom
        order = self.rpo()
        idx = {b: i for i, b in enumerate(order)}
        idom = {0: 0}
        changed = True
        while changed:
            changed = False
            for b in order[1:]:
                ps = [p for p in self.pred[b] if p in idom]
                if not ps:
                    continue
                new = ps[0]
                for p in ps[1:]:
                    a, c = p, new
                    while a != c:
                        while idx[a] > idx[c]:
                            a = idom[a]
                        while idx[c] > idx[a]:
                            c = idom[c]
                    new = a
                if idom.get(b) != new:
                    idom[b] = new
                    changed = True
        self._dom = idom
        return idom

    def dominates(self, a, b):
        idom = self.dominators()
        if b not in idom:
            return False
        while True:
            if a == b:
                return True
            if b == 0:
                return False
            b = idom[b]

    def loops(self):
        """natural loops: header -> set of body blocks (merged per header)"""
        if self._loops is not None:
            return self._loops
        loops = {}
        for a in self.reach:
            for h in self.succ[a]:
                if self.dominates(h, a):
                    body = loops.setdefault(h, {h})
                    st = [a]
                    while st:
                        x = st.pop()
                        if x in body:
                            continue
                        body.add(x)
                        st.extend(self.pred[x])
        self._loops = loops
        return loops

    def sccs(self, nodes=None, removed=()):
        """Tarjan SCCs over reachable blocks minus `removed`; returns list of sets with a cycle (size>1 or self loop)."""
        nodes = [n for n in (nodes if nodes is not None else sorted(self.reach)) if n not in removed]
        nodeset = set(nodes)
        index, low, onst, st, out = {}, {}, set(), [], []
        counter = [0]
        for root in nodes:
            if root in index:
                continue
            work = [(root, 0)]
            while work:
                v, i = work.pop()
                if i == 0:
                    index[v] = low[v] = counter[0]
                    counter[0] += 1
                    st.append(v)
                    onst.add(v)
                ss = [s for s in self.succ[v] if s in nodeset]
                if i < len(ss):
                    work.append((v, i + 1))
                    w = ss[i]
                    if w not in index:
                        work.append((w, 0))
                    elif w in onst:
                        low[v] = min(low[v], index[w])
                else:
                    if work:
                        u = work[-1][0]
                        low[u] = min(low[u], low[v])
                    if low[v] == index[v]:
                        comp = set()
                        while True:
                            w = st.pop()
                            onst.discard(w)
                            comp.add(w)
                            if w == v:
                                break
                        if len(comp) > 1 or v in [s for s in self.succ[v] if s in nodeset]:
                            out.append(comp)
        return out

    def modified_locals(self, blocks):
        """locals assigned (any projection), mutably borrowed, call-destination or moved-from inside `blocks`."""
        mod = set()
        for bi in blocks:
            b = self.blocks[bi]
            for s in b['stmts']:
                if s['k'] in ('assign', 'setdiscr'):
                    lhs = s['lhs']
                    if not any(e == '*' for e in lhs['p']):
                        mod.add(lhs['l'])
                if s['k'] == 'assign':
                    rv = s['rv']
                    if rv['k'] == 'ref' and rv['mut'] and not any(e == '*' for e in rv['p']['p']):
                        mod.add(rv['p']['l'])
                    if rv['k'] == 'rawptr' and not any(e == '*' for e in rv['p']['p']):
                        mod.add(rv['p']['l'])
            t = b['term']
            if t['k'] == 'call':
                d = t['dest']
                if not any(e == '*' for e in d['p']):
                    mod.add(d['l'])
            if t['k'] == 'drop':
                pass
        return mod


    def modified_fields(self, blocks):
        """local -> set of first-level field indices written / mutably borrowed inside `blocks`, or None when the local is (also) modified as a
        whole.  `uext.keywords.insert(..)` in a loop modifies field 0 of `uext` only: what an earlier loop established about field 1 stays true."""
        out = {}

        def note(pl):
            if any(e == '*' for e in pl['p']):
                return
            l = pl['l']
            first = pl['p'][0] if pl['p'] else None
            if isinstance(first, dict) and 'f' in first and out.get(l, set()) is not None:
                out.setdefault(l, set()).add(first['f'])
            else:
                out[l] = None
        for bi in blocks:
            b = self.blocks[bi]
            for s in b['stmts']:
                if s['k'] in ('assign', 'setdiscr'):
                    note(s['lhs'])
                if s['k'] == 'assign' and s['rv']['k'] in ('ref', 'rawptr') and (s['rv']['k'] == 'rawptr' or s['rv'].get('mut')):
                    note(s['rv']['p'])
                if s['k'] == 'assign':
                    # a field moved out of the local leaves it partially moved: treat as a modification of that field
                    for o in ([s['rv'].get('o')] if s['rv']['k'] in ('use', 'cast') else s['rv'].get('ops', []) if s['rv']['k'] == 'agg' else []):
                        if isinstance(o, dict) and 'move' in o and o['move']['p']:
                            note(o['move'])
            t = b['term']
            if t['k'] == 'call':
                note(t['dest'])
                for a in t['args']:
                    if isinstance(a, dict) and 'move' in a and a['move']['p']:
                        note(a['move'])
        return out

    # ------------------------------------------------------------------------------------------------ liveness
    def _uses_defs(self, bi):
        """(use-before-def set, def set) of whole locals for one block; any projected or borrowed mention counts as a use"""
        use, dfn = set(), set()

        def use_place(p):
            if p is None:
                return
            if p['l'] not in dfn:
                use.add(p['l'])
            for e in p['p']:
                if isinstance(e, dict) and 'idx' in e and e['idx'] not in dfn:
                    use.add(e['idx'])

        def use_op(o):
            if not isinstance(o, dict):
                return
            use_place(o.get('copy') or o.get('move'))

        b = self.blocks[bi]
        for s in b['stmts']:
            if s['k'] == 'assign':
                rv = s['rv']
                k = rv['k']
                if k in ('use', 'cast', 'un', 'repeat'):
                    use_op(rv['o'])
                elif k == 'bin':
                    use_op(rv['a'])
                    use_op(rv['b'])
                elif k == 'agg':
                    for o in rv['ops']:
                        use_op(o)
                elif k in ('ref', 'rawptr', 'discr', 'len', 'copyforderef'):
                    use_place(rv.get('p'))
                else:
                    for v in rv.values():
                        if isinstance(v, dict) and 'l' in v and 'p' in v:
                            use_place(v)
                        elif isinstance(v, dict):
                            use_op(v)
                lhs = s['lhs']
                if lhs['p']:
                    use_place(lhs)
                else:
                    dfn.add(lhs['l'])
            elif s['k'] == 'setdiscr':
                use_place(s['lhs'])
        t = b['term']
        k = t['k']
        if k == 'switch':
            use_op(t['d'])
        elif k == 'assert':
            use_op(t['c'])
        elif k == 'call':
            for a in t['args']:
                use_op(a)
            if 'fop' in t:
                use_op(t['fop'])
            d = t['dest']
            if d['p']:
                use_place(d)
            else:
                dfn.add(d['l'])
        elif k == 'drop':
            pass
        elif k == 'return':
            if 0 not in dfn:
                use.add(0)
        return use, dfn

    def liveness(self):
        """live-in sets per block (backward dataflow over the non-cleanup CFG)"""
        if getattr(self, '_live', None) is not None:
            return self._live
        ud = {b: self._uses_defs(b) for b in self.reach}
        live_in = {b: set() for b in self.reach}
        changed = True
        while changed:
            changed = False
            for b in sorted(self.reach, reverse=True):
                out = set()
                for sc in self.succ[b]:
                    out |= live_in.get(sc, set())
                use, dfn = ud[b]
                new = use | (out - dfn)
                if new != live_in[b]:
                    live_in[b] = new
                    changed = True
        self._live = live_in
        return live_in
