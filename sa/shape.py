"""Exact abstract domain for "the byte string under test" (DESIGN §3.4/§3.5).

A Shape is a finite union of *cells*.  A cell is (n, masks) with n in 0..MAXLEN and masks a tuple of n 256-bit
integers (bit b of masks[p] set <=> byte b allowed at position p); its concretisation is the product set.
The single cell LONG stands for every byte string longer than MAXLEN (no positional information).
All operations used by the analysis (intersection with / difference from a product set, length tests,
per-position byte tests, all-bytes tests, literal comparison modulo a byte transform) are exact on this domain,
so the accept/reject sets computed for a validator are exact whenever every branch condition is understood.
"""

MAXLEN = 9          # every subtag production is <= 8 bytes; 9 is the first over-long length
LONG = ('LONG',)
FULL = (1 << 256) - 1


def mask(pred):
    m = 0
    for b in range(256):
        if pred(b):
            m |= 1 << b
    return m


UPPER = mask(lambda b: 0x41 <= b <= 0x5A)
LOWER = mask(lambda b: 0x61 <= b <= 0x7A)
DIGIT = mask(lambda b: 0x30 <= b <= 0x39)
ALPHA = UPPER | LOWER
ALNUM = ALPHA | DIGIT
ASCII_NZ = mask(lambda b: 1 <= b <= 0x7F)     # what TinyAsciiStr::from_bytes accepts per byte
ASCII = mask(lambda b: b <= 0x7F)
SEP = mask(lambda b: b in (0x2D, 0x5F))


def bytes_of(m):
    return [b for b in range(256) if m >> b & 1]


def mask_of(bs):
    m = 0
    for b in bs:
        m |= 1 << b
    return m


def popcount(m):
    return bin(m).count('1')


def describe_mask(m):
    if m == FULL:
        return 'any'
    if m == 0:
        return 'none'
    names = [('alnum', ALNUM), ('alpha', ALPHA), ('digit', DIGIT), ('upper', UPPER), ('lower', LOWER)]
    parts = []
    rest = m
    for nm, mm in names:
        if rest & mm == mm:
            parts.append(nm)
            rest &= ~mm
    if rest:
        bs = bytes_of(rest)
        if len(bs) > 12:
            parts.append('+%d other bytes (e.g. %s)' % (len(bs), ' '.join('%02x' % b for b in bs[:4])))
        else:
            parts.append('{' + ' '.join(chr(b) if 0x21 <= b < 0x7F else '\\x%02x' % b for b in bs) + '}')
    return '|'.join(parts)


def example_of_mask(m, prefer=()):
    for pm in prefer:
        if m & pm:
            m = m & pm
            break
    for b in (0x61, 0x41, 0x31, 0x2E, 0x2D, 0x5F, 0x00, 0x80):
        if m >> b & 1:
            return b
    return bytes_of(m)[0]


class Shape:
    __slots__ = ('cells',)

    def __init__(self, cells=None):
        # cells: dict n -> list of mask tuples (disjointness not required); LONG key for the long cell
        self.cells = cells if cells is not None else {}

    @staticmethod
    def top():
        c = {n: [tuple([FULL] * n)] for n in range(MAXLEN + 1)}
        c[LONG] = [()]
        return Shape(c)

    @staticmethod
    def bottom():
        return Shape({})

    @staticmethod
    def product(n, masks):
        assert len(masks) == n
        if any(m == 0 for m in masks):
            return Shape({})
        return Shape({n: [tuple(masks)]})

    @staticmethod
    def union_of(shapes):
        out = {}
        for s in shapes:
            for n, lst in s.cells.items():
                out.setdefault(n, []).extend(lst)
        return Shape(out).normalised()

    def copy(self):
        return Shape({n: list(l) for n, l in self.cells.items()})

    def is_empty(self):
        return not any(self.cells.values())

    def lengths(self):
        return set(n for n, l in self.cells.items() if l)

    def key(self):
        return tuple(sorted(((-1 if n == LONG else n), tuple(sorted(l))) for n, l in self.cells.items() if l))

    def normalised(self):
        out = {}
        for n, lst in self.cells.items():
            seen = []
            for c in lst:
                if any(m == 0 for m in c):
                    continue
                if c in seen:
                    continue
                # drop cells subsumed by another
                if any(all((a & b) == a for a, b in zip(c, d)) for d in seen):
                    continue
                seen = [d for d in seen if not all((a & b) == a for a, b in zip(d, c))]
                seen.append(c)
            if seen:
                out[n] = seen
        return Shape(out)

    # ---- refinement primitives: each returns (shape_where_true, shape_where_false) -------------------------
    def split_len(self, pred):
        """pred: function int -> bool on exact lengths; LONG is asked with pred_long (must be uniform)."""
        t, f = {}, {}
        for n, lst in self.cells.items():
            if not lst:
                continue
            if n == LONG:
                # lengths MAXLEN+1 .. infinity: the predicate must be constant there for exactness
                vals = {bool(pred(MAXLEN + 1)), bool(pred(MAXLEN + 2)), bool(pred(1 << 20)), bool(pred(1 << 40))}
                if True in vals:
                    t[n] = list(lst)
                if False in vals:
                    f[n] = list(lst)
            elif pred(n):
                t[n] = list(lst)
            else:
                f[n] = list(lst)
        return Shape(t), Shape(f)

    def split_pos(self, p, m):
        """byte at position p in mask m.  Cells shorter than p+1 go to neither side (caller proved p < len)."""
        t, f = {}, {}
        for n, lst in self.cells.items():
            if n == LONG:
                # no positional information: both outcomes possible
                t[n] = list(lst)
                f[n] = list(lst)
                continue
            if n <= p:
                continue
            for c in lst:
                a = c[p] & m
                b = c[p] & ~m & FULL
                if a:
                    t.setdefault(n, []).append(c[:p] + (a,) + c[p + 1:])
                if b:
                    f.setdefault(n, []).append(c[:p] + (b,) + c[p + 1:])
        return Shape(t), Shape(f)

    def split_all(self, lo, m, hi=None):
        """all bytes at positions lo.. (to hi exclusive / end) are in mask m."""
        t, f = {}, {}
        for n, lst in self.cells.items():
            if n == LONG:
                t[n] = list(lst)
                f[n] = list(lst)
                continue
            end = n if hi is None else min(hi, n)
            for c in lst:
                # true part: intersect every position
                tc = list(c)
                ok = True
                for p in range(lo, end):
                    tc[p] = c[p] & m
                    if not tc[p]:
                        ok = False
                        break
                if ok:
                    t.setdefault(n, []).append(tuple(tc))
                # false part: disjoint decomposition "first offending position is p"
                pre = list(c)
                for p in range(lo, end):
                    bad = c[p] & ~m & FULL
                    if bad:
                        fc = list(pre)
                        fc[p] = bad
                        f.setdefault(n, []).append(tuple(fc))
                    pre[p] = c[p] & m
                    if not pre[p]:
                        break
        return Shape(t), Shape(f)

    def split_product(self, n0, masks):
        """string is in the product set (length n0, masks)."""
        t, f = {}, {}
        for n, lst in self.cells.items():
            if n != n0:
                f[n] = list(lst)
                continue
            for c in lst:
                tc = tuple(a & b for a, b in zip(c, masks))
                if all(tc):
                    t.setdefault(n, []).append(tc)
                pre = list(c)
                for p in range(n):
                    bad = c[p] & ~masks[p] & FULL
                    if bad:
                        fc = list(pre)
                        fc[p] = bad
                        f.setdefault(n, []).append(tuple(fc))
                    pre[p] = c[p] & masks[p]
                    if not pre[p]:
                        break
        return Shape(t), Shape(f)

    def intersect(self, other):
        out = {}
        for n, lst in self.cells.items():
            ol = other.cells.get(n)
            if not ol:
                continue
            if n == LONG:
                out[n] = [()]
                continue
            for c in lst:
                for d in ol:
                    e = tuple(a & b for a, b in zip(c, d))
                    if all(e) or n == 0:
                        out.setdefault(n, []).append(e)
        return Shape(out).normalised()

    def minus(self, other):
        cur = self.copy()
        for n, ol in other.cells.items():
            if n == LONG:
                if ol:
                    cur.cells.pop(LONG, None)
                continue
            for d in ol:
                _, cur2 = Shape({n: cur.cells.get(n, [])}).split_product(n, d)
                if cur2.cells.get(n):
                    cur.cells[n] = cur2.cells[n]
                else:
                    cur.cells.pop(n, None)
        return cur.normalised()

    def subset_of(self, other):
        return self.minus(other).is_empty()

    def equals(self, other):
        return self.subset_of(other) and other.subset_of(self)

    def example(self):
        """A concrete member (bytes), or None."""
        for n in sorted((k for k in self.cells if k != LONG and self.cells[k])):
            c = self.cells[n][0]
            return bytes(example_of_mask(m) for m in c)
        if self.cells.get(LONG):
            return b'a' * (MAXLEN + 1)
        return None

    def describe(self):
        parts = []
        for n in sorted((k for k in self.cells if k != LONG and self.cells[k])):
            for c in self.cells[n]:
                parts.append('len %d [%s]' % (n, ', '.join(describe_mask(m) for m in c)))
        if self.cells.get(LONG):
            parts.append('len >%d' % MAXLEN)
        return ' | '.join(parts) if parts else 'EMPTY'

    def count_up_to(self, maxn=MAXLEN):
        """Number of concrete strings of length <= maxn (cells may overlap: counts via inclusion of disjoint normal form is
        not attempted; used only for reporting, on shapes whose cells are disjoint by construction)."""
        tot = 0
        for n, lst in self.cells.items():
            if n == LONG or n > maxn:
                continue
            for c in lst:
                k = 1
                for m in c:
                    k *= popcount(m)
                tot += k
        return tot


def spec_shape(pieces):
    """pieces: list of (n, [mask,...])"""
    return Shape.union_of([Shape.product(n, list(ms)) for n, ms in pieces])


# byte transforms used by payload checks -----------------------------------------------------------------------

def t_lower(b):
    return b + 32 if 0x41 <= b <= 0x5A else b


def t_upper(b):
    return b - 32 if 0x61 <= b <= 0x7A else b


def t_id(b):
    return b


def transform_at(kind, p):
    """byte function applied at position p by a whole-string transform."""
    if kind == 'lower':
        return t_lower
    if kind == 'upper':
        return t_upper
    if kind == 'title':
        return t_upper if p == 0 else t_lower
    if kind == 'id':
        return t_id
    raise KeyError(kind)


def transforms_agree(shape, k1, k2):
    """Do two whole-string transform sequences (tuples of kinds, applied left to right) give the same result on every
    string of the shape?  Returns (bool, witness)."""
    a1, a2 = compose_transform(tuple(k1)), compose_transform(tuple(k2))
    for n, lst in shape.cells.items():
        if n == LONG:
            if lst and tuple(k1) != tuple(k2):
                return False, 'long strings'
            continue
        for c in lst:
            for p, m in enumerate(c):
                f1, f2 = a1(p), a2(p)
                for b in bytes_of(m):
                    if f1(b) != f2(b):
                        return False, 'len %d: byte %r at position %d: %s gives %r, %s gives %r' % (n, chr(b), p, '+'.join(k1), chr(f1(b)), '+'.join(k2), chr(f2(b)))
    return True, ''


def compose_transform(kinds):
    """Sequence of whole-string transforms applied left to right -> per-position byte function."""
    def at(p):
        fs = [transform_at(k, p) for k in kinds]

        def f(b):
            for g in fs:
                b = g(b)
            return b
        return f
    return at
