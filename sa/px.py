"""PX — path-sensitive abstract exploration of MIR bodies (DESIGN §3.2/§3.6).

A forward exploration of one function body (loop-free callees from the repository are explored inline) over
  * a symbolic store: every local holds an *origin term* (parameter, constant, aggregate, call result, projection),
  * decided facts: tags (Some/None, Ok/Err) of values already branched on, discriminants, boolean atoms,
  * Shapes (sa.shape) of byte-string subjects, refined exactly by every length / byte-class test that is understood.
Branch conditions are interpreted by these domains or ignored (both edges taken); no path formula is built and no
solver is involved.  Loops of the top-level function are cut at their natural-loop header: the state is abstracted
(loop-modified locals keep only constants and variant tags), and a header state already seen is not re-explored,
so the result is a finite graph of *segments* (src node -> dst node) labelled with events.
"""
import re
from . import cfg as cfgmod
from . import shape as sh
from .shape import Shape

# --------------------------------------------------------------------------------------------------------------
# terms
# values:  ('int', n) ('str', bytes) ('bytes', bytes, ty) ('param', i) ('ref', place) ('adt', def, vname, fields)
#          ('tuple', fields) ('array', fields) ('closure', def, caps) ('fn', name) ('static', name, off)
#          ('call', name, args, uid) ('pure', name, args) ('bin', op, a, b) ('un', op, a) ('discr', v, ty)
#          ('len', subj) ('byte', subj, p, xf) ('tiny', subj, xf) ('tinyres', subj, N) ('cf', r) ('residual', r)
#          ('map_err', r, f) ('ok', r) ('pos', v) ('neg', v) ('init', place) ('lv', key, uid) ('undef', ..)
#          ('pred', kind, ...) lazily decided boolean
# places:  ('L', fid, n) ('F', pl, i) ('D', pl, vname) ('P', v) ('I', pl, v) ('T', it, k) ('S', pl, lo, hi, fe)
# --------------------------------------------------------------------------------------------------------------

POS_NAMES = {'Some', 'Ok', 'Continue'}
NEG_NAMES = {'None', 'Err', 'Break'}


MAX_RSS_KB = 4500000      # a check stops exploring (fail closed) well before the machine runs out of memory


def rss_kb():
    try:
        import resource
        return resource.getrusage(resource.RUSAGE_SELF).ru_maxrss
    except Exception:
        return 0


class Limit(Exception):
    pass


class Unmodelled(Exception):
    pass


def INT(n):
    return ('int', n)


TRUE = INT(1)
FALSE = INT(0)
UNIT = ('tuple', ())


def sumkind(ty):
    t = ty.lstrip('&').replace('mut ', '')
    if t.startswith('std::option::Option<'):
        return 'option'
    if t.startswith('std::result::Result<'):
        return 'result'
    if t.startswith('std::ops::ControlFlow<'):
        return 'cf'
    return None


SUM_VARIANTS = {'option': ['None', 'Some'], 'result': ['Ok', 'Err'], 'cf': ['Continue', 'Break']}


def split_generics(s):
    """'A<B, C<D>>' -> ('A', ['B', 'C<D>'])"""
    i = s.find('<')
    if i < 0 or not s.endswith('>'):
        return s, []
    head, inner = s[:i], s[i + 1:-1]
    out, depth, cur = [], 0, ''
    for ch in inner:
        if ch in '<([':
            depth += 1
        elif ch in '>)]':
            depth -= 1
        if ch == ',' and depth == 0:
            out.append(cur.strip())
            cur = ''
        else:
            cur += ch
    if cur.strip():
        out.append(cur.strip())
    return head, out


class State:
    __slots__ = ('frames', 'store', 'facts', 'shapes', 'iters', 'events', 'counter', 'notes')

    def __init__(self):
        self.frames = {}
        self.store = {}
        self.facts = {}
        self.shapes = {}
        self.iters = {}
        self.events = []
        self.counter = [0]      # shared along a path and its forks: uids stay globally unique
        self.notes = []

    def copy(self):
        s = State()
        s.frames = {k: dict(v) for k, v in self.frames.items()}
        s.store = dict(self.store)
        s.facts = dict(self.facts)
        s.shapes = dict(self.shapes)
        s.iters = dict(self.iters)
        s.events = list(self.events)
        s.counter = self.counter
        s.notes = list(self.notes)
        return s

    def uid(self):
        self.counter[0] += 1
        return self.counter[0]


class Segment:
    __slots__ = ('src', 'dst', 'state', 'ret', 'events', 'kind', 'facts', 'shapes', 'env')

    def __init__(self, src, dst, state, ret, events, kind, facts=None, shapes=None, env=None):
        self.src, self.dst, self.state, self.ret, self.events, self.kind = src, dst, state, ret, events, kind
        # env: for a segment ending at a loop head, the top frame's locals BEFORE the cut abstracted the loop-modified ones
        self.env = env
        # facts / shapes at the END of the segment (for a segment ending at a loop head: before the loop cut dropped the
        # facts about this iteration's values)
        self.facts = facts if facts is not None else state.facts
        self.shapes = shapes if shapes is not None else state.shapes


class Program:
    """bodies of one configuration + lazily built CFGs + promoted-constant evaluation."""

    def __init__(self, facts):
        self.facts = facts
        self.bodies = facts.bodies
        self._cfg = {}
        self._stag = {}
        self.varidx = {}
        for name, a in facts.adts.items():
            for i, v in enumerate(a['variants']):
                self.varidx[(name, v['name'])] = i

    def cfg(self, name):
        if name not in self._cfg:
            self._cfg[name] = cfgmod.CFG(self.bodies[name]['mir'])
        return self._cfg[name]

    def has_loops(self, name):
        return bool(self.cfg(name).loops())

    def static_len(self, name):
        d = self.facts.data.get(name)
        if not d:
            return None
        m = re.search(r'; (\d+)\]$', d['ty'])
        return int(m.group(1)) if m else None

    def static_tag(self, name, path):
        """Is the Option at `path` (list of field indices) inside every element of static array `name` uniformly Some
        ('pos') / None ('neg')?  Read from the type-checked initialiser (data fact), never from text."""
        key = (name, tuple(path))
        if key in self._stag:
            return self._stag[key]
        d = self.facts.data.get(name)
        res = None
        if d and isinstance(d['v'], list) and d['v']:
            tags = set()
            for row in d['v']:
                x = row
                try:
                    for i in path:
                        x = x[i]
                except (IndexError, TypeError, KeyError):
                    tags.add('?')
                    break
                if isinstance(x, dict) and re.search(r'(^core::|::)(std::)?(option::Option|prelude::v1)::Some$', x.get('call', '')):
                    tags.add('pos')
                elif isinstance(x, dict) and re.search(r'(^core::|::)(std::)?(option::Option|prelude::v1)::None$', x.get('path', '')):
                    tags.add('neg')
                else:
                    tags.add('?')
            if len(tags) == 1 and '?' not in tags:
                res = tags.pop()
        self._stag[key] = res
        return res

    def enum_variants(self, tystr):
        """variant names of a repository enum given its (crate-relative) type string."""
        t = tystr.lstrip('&').replace('mut ', '')
        for name, a in self.facts.adts.items():
            if name.endswith('::' + t) or name == t or name.split('::', 1)[-1] == t:
                return [v['name'] for v in a['variants']]
        return None


class PX:
    def __init__(self, program, inline=True, max_depth=12, max_states=150000, opaque=(), wrap_returns=(),
                 inline_loops=False, trace=False):
        self.p = program
        self.inline = inline
        self.max_depth = max_depth
        self.max_states = max_states
        self.max_heads = 150
        self.heads_per_loop = {}
        self.opaque = set(opaque)
        self.wrap_returns = set(wrap_returns)
        self.inline_loops = inline_loops
        self.nstates = 0
        self.unmodelled = {}       # external callee -> count (reported by clients: fail closed where it matters)
        self.undecided = {}        # boolean/tag terms that no domain understood -> count
        self.trace = trace
        self.data_facts_used = set()
        self.visited_fns = set()
        self.cur_site = (None, None)
        self.search_bounds_used = set()
        self.fid = 0
        self.ga_stack = []        # generic arguments of the calls being explored inline (innermost last): const generics of helpers
        from . import models
        self.models = models

    # ---------------------------------------------------------------- frames / places
    def new_frame(self, st):
        self.fid += 1
        st.frames[self.fid] = {}
        return self.fid

    def canon(self, st, pl):
        k = pl[0]
        if k == 'P':
            v = pl[1]
            if v[0] == 'ref':
                return self.canon(st, v[1])
            return pl
        if k in ('F', 'D', 'I'):
            b = self.canon(st, pl[1])
            return (k, b) + tuple(pl[2:])
        if k == 'S':
            return ('S', self.canon(st, pl[1])) + tuple(pl[2:])
        return pl

    def mkref(self, pl):
        if pl[0] == 'P':
            return pl[1]
        return ('ref', pl)

    def place(self, st, fid, pj):
        pl = ('L', fid, pj['l'])
        for e in pj['p']:
            if e == '*':
                v = self.read(st, pl)
                pl = self.canon(st, ('P', v))
            elif 'f' in e:
                pl = ('F', pl, e['f'])
            elif 'dc' in e:
                pl = ('D', pl, e['n'])
            elif 'idx' in e:
                pl = ('I', pl, self.read(st, ('L', fid, e['idx'])))
            elif 'cidx' in e:
                pl = ('I', pl, ('cidx', e['cidx'], e['min'], e['end']))
            elif 'sub' in e:
                pl = ('S', pl, e['sub'][0], e['sub'][1], e['end'])
            else:
                pl = ('F', pl, ('?', str(e)))
        return pl

    def read(self, st, pl):
        k = pl[0]
        if k == 'L':
            return st.frames[pl[1]].get(pl[2], ('undef', pl[1], pl[2]))
        if k == 'F':
            return self.field_of(st, self.read(st, pl[1]), pl[2])
        if k == 'D':
            base = self.read(st, pl[1])
            if base[0] == 'adt':
                return base
            return ('dcv', base, pl[2])
        if k == 'P':
            v = pl[1]
            if v[0] == 'ref':
                return self.read(st, v[1])
            if v[0] == 'cref':
                return v[1]              # a by-value snapshot behind a reference
            c = self.canon(st, pl)
            if c in st.store:
                return st.store[c]
            return self.init_value(st, c)
        if k == 'I':
            base_pl = self.canon(st, pl[1])
            idx = pl[2]
            bv = self.read_opt(st, base_pl) if base_pl[0] in ('L', 'F') else None
            if bv is not None and bv[0] == 'arrval':
                # element of an array obtained from a slice by <[T; N]>::try_from: a byte of that slice
                i = idx[1] if idx[0] in ('int', 'cidx') else None
                if i is not None and not (idx[0] == 'cidx' and idx[3]):
                    return ('byte', bv[1], i, ())
            if bv is not None and bv[0] == 'fld' and bv[2] == 0 and bv[1][0] == 'tiny':
                # a byte of the storage of a TinyAsciiStr value (constant patterns are matched byte by byte): the transformed input byte, NUL beyond its end
                i = idx[1] if idx[0] in ('int', 'cidx') else None
                if i is not None and not (idx[0] == 'cidx' and idx[3]):
                    return ('tbyte', bv[1][1], i, bv[1][2])
            if bv is not None and bv[0] == 'array':
                i = idx[1] if idx[0] in ('int', 'cidx') else None
                if i is not None and not (idx[0] == 'cidx' and idx[3]) and i < len(bv[1]):
                    return bv[1][i]
            if idx[0] == 'int':
                return ('byte', base_pl, idx[1], ()) if self.is_subject(st, base_pl) else ('elem', self.read_opt(st, base_pl), idx)
            if idx[0] == 'cidx' and not idx[3]:
                return ('byte', base_pl, idx[1], ()) if self.is_subject(st, base_pl) else ('elem', self.read_opt(st, base_pl), INT(idx[1]))
            return ('elem', self.read_opt(st, base_pl), idx)
        if k == 'T':
            return ('slice', pl)
        if k == 'PK':
            # the `&&[u8]` a Peekable hands out: it points at the element reference
            return ('ref', ('T', pl[1], pl[2]))
        if k == 'B1':
            return ('byte', pl, 0, ())
        if k == 'S':
            return ('slice', pl)
        return ('unk', pl)

    def read_opt(self, st, pl):
        try:
            return self.read(st, pl)
        except Exception:
            return ('unk', pl)

    def is_subject(self, st, pl):
        # any place indexed by constants is treated as a byte-string subject candidate; harmless for non-[u8]
        return True

    def init_value(self, st, c):
        # value of a place at function entry / of an opaque pointee
        if c[0] == 'P' and c[1][0] in ('peekpay',):
            return c[1][1]
        return ('init', c)

    def field_of(self, st, v, i):
        k = v[0]
        if k in ('adt',):
            f = v[3]
            return f[i] if isinstance(i, int) and i < len(f) else ('fld', v, i)
        if k in ('tuple', 'array', 'closure'):
            f = v[-1] if k == 'closure' else v[1]
            return f[i] if isinstance(i, int) and i < len(f) else ('fld', v, i)
        if k == 'dcv':
            b, vn = v[1], v[2]
            if b[0] == 'adt':
                return self.field_of(st, b, i)
            return self.payload(st, b, vn, i)
        if k == 'upd':
            if v[2] == i:
                return v[3]
            return self.field_of(st, v[1], i)
        if k == 'init':
            c = ('F', v[1], i)
            if c in st.store:
                return st.store[c]
            return ('init', c)
        return ('fld', v, i)

    def payload(self, st, b, vn, i):
        if vn in POS_NAMES and i == 0:
            return self.pos_payload(st, b)
        if vn in NEG_NAMES and i == 0:
            return self.neg_payload(st, b)
        return ('pay', b, vn, i)

    def pos_payload(self, st, v):
        k = v[0]
        if k == 'adt' and v[2] in POS_NAMES:
            return v[3][0]
        if k in ('cf', 'map_err', 'ok'):
            return self.pos_payload(st, v[1])
        if k == 'tinyres':
            return ('tiny', v[1], ())
        if k == 'peekres':
            return ('ref', ('PK', v[1], v[2]))
        if k == 'nextres':
            return ('ref', ('T', v[1], v[2]))
        if k == 'optref':        # Option<&T> view of an Option place (as_ref)
            inner = self.read(st, v[1])
            pl = self.canon(st, ('F', ('D', v[1], 'Some'), 0))
            return self.mkref(pl)
        if k == 'dcv':
            return self.pos_payload(st, v[1])
        ext = self.models.pos_payload_ext(self, st, v)
        if ext is not None:
            return ext
        return ('pos', v)

    def neg_payload(self, st, v):
        k = v[0]
        if k == 'adt' and v[2] in NEG_NAMES:
            return v[3][0] if v[3] else UNIT
        if k == 'cf':
            return ('residual', v[1])
        if k == 'map_err':
            return ('errmap', v[2], self.neg_payload(st, v[1]))
        if k == 'residual':
            return self.neg_payload(st, v[1])
        if k == 'dcv':
            return self.neg_payload(st, v[1])
        return ('neg', v)

    def write(self, st, pl, val, span=None):
        pl = self.canon(st, pl)
        k = pl[0]
        if k == 'L':
            st.frames[pl[1]][pl[2]] = val
            if span is not None and self.mentions_tiny(val):
                # a validated subtag (or a structure holding one) assigned to a whole local: parsers keep their slots in locals
                st.events.append(('lstore', pl, val, span))
            return
        root = pl
        path = []
        while root[0] in ('F', 'D'):
            path.append(root)
            root = root[1]
        if root[0] == 'L' and all(p[0] == 'F' for p in path):
            # functional update of an aggregate local
            def upd(v, ps):
                if not ps:
                    return val
                p = ps[-1]
                i = p[2]
                inner = upd(self.field_of(st, v, i), ps[:-1])
                if v[0] in ('adt',) and isinstance(i, int) and i < len(v[3]):
                    f = list(v[3])
                    f[i] = inner
                    return ('adt', v[1], v[2], tuple(f))
                if v[0] == 'tuple' and isinstance(i, int) and i < len(v[1]):
                    f = list(v[1])
                    f[i] = inner
                    return ('tuple', tuple(f))
                return ('upd', v, i, inner)
            cur = self.read(st, root)
            st.frames[root[1]][root[2]] = upd(cur, path)
            st.events.append(('lstore', pl, val, span))
            return
        # opaque-rooted (or exotic) place: the store
        for key in [q for q in st.store if self.is_prefix(pl, q) and q != pl]:
            del st.store[key]
        st.store[pl] = val
        st.events.append(('store', pl, val, span))

    @staticmethod
    def mentions_tiny(v, depth=0):
        if not isinstance(v, tuple) or depth > 5 or not v:
            return False
        if v[0] == 'tiny':
            return True
        if v[0] == 'adt':
            return any(PX.mentions_tiny(x, depth + 1) for x in v[3])
        if v[0] == 'tuple':
            return any(PX.mentions_tiny(x, depth + 1) for x in v[1])
        return False

    @staticmethod
    def is_prefix(a, b):
        while True:
            if a == b:
                return True
            if b[0] in ('F', 'D', 'I', 'S'):
                b = b[1]
            else:
                return False

    # ---------------------------------------------------------------- operands / rvalues
    def const(self, st, fn, c):
        if 'fn' in c:
            return ('fn', c['fn'], c.get('args', ''))
        if c.get('promoted', -1) >= 0:
            v = self.eval_promoted(st, c['uneval'], c['promoted'])
            if v is not None:
                return v
        if 'int' in c:
            n = int(c['int'])
            return ('int', n)
        if 'static' in c:
            return ('ref', ('ST', c['static'])) if c['cty'].startswith('&') else ('static', c['static'])
        if 'slice' in c:
            return ('ref', ('STR', bytes(c['slice'])))
        if 'mem' in c:
            if c['cty'].startswith('&'):
                return ('ref', ('MEM', bytes(c['mem']), c['cty'][1:]))
            return ('bytes', bytes(c['mem']), c['cty'])
        if 'indirect' in c:
            return ('bytes', bytes(c['indirect']), c['cty'])
        if c.get('zst'):
            if c['cty'] == '()':
                return UNIT
            return ('zst', c['cty'])
        if 'uneval' in c:
            return ('constitem', c['uneval'])
        return ('const?', c.get('cty', ''))

    def eval_promoted(self, st, owner, idx):
        b = self.p.bodies.get(owner)
        if not b or idx >= len(b.get('promoted', [])):
            return None
        mir = b['promoted'][idx]
        # tiny straight-line bodies: evaluate in a scratch frame (no events kept)
        tmp = State()
        tmp.counter = st.counter
        fid = self.new_frame(tmp)
        bi = 0
        for _ in range(20):
            blk = mir['blocks'][bi]
            for s in blk['stmts']:
                if s['k'] == 'assign':
                    v = self.rvalue(tmp, fid, owner, s['rv'], mir)
                    tmp.frames[fid][s['lhs']['l']] = v if not s['lhs']['p'] else ('unk', 'promoted-proj')
            t = blk['term']
            if t['k'] == 'return':
                v = tmp.frames[fid].get(0)
                return self.freeze(tmp, v)
            if t['k'] == 'call':
                nm = t['r'] or t['f']
                args = [self.operand(tmp, fid, owner, a, mir) for a in t['args']]
                if nm.endswith('RangeInclusive::<Idx>::new'):
                    tmp.frames[fid][t['dest']['l']] = ('range_incl', args[0], args[1])
                else:
                    tmp.frames[fid][t['dest']['l']] = ('pure', nm, tuple(args))
                bi = t['t']
                continue
            if t['k'] == 'goto':
                bi = t['t']
                continue
            return None
        return None

    def freeze(self, st, v):
        """replace refs to scratch-frame locals by by-value constants ('cref', value)"""
        if v is None:
            return None
        if v[0] == 'ref' and v[1][0] == 'L':
            inner = self.read(st, v[1])
            return ('cref', self.freeze(st, inner))
        if v[0] == 'ref':
            return v
        return v

    def operand(self, st, fid, fn, o, mir=None):
        if 'copy' in o:
            return self.read(st, self.place(st, fid, o['copy']))
        if 'move' in o:
            return self.read(st, self.place(st, fid, o['move']))
        if 'const' in o:
            return self.const(st, fn, o['const'])
        return ('op?',)

    def deref_value(self, st, v):
        """value behind a pointer value"""
        if v[0] == 'cref':
            return v[1]
        if v[0] == 'ref':
            pl = v[1]
            if pl[0] == 'STR':
                return ('str', pl[1])
            if pl[0] == 'MEM':
                return ('bytes', pl[1], pl[2])
            if pl[0] == 'PK':
                return ('ref', ('T', pl[1], pl[2]))
            return self.read(st, pl)
        return self.read(st, self.canon(st, ('P', v)))

    def rvalue(self, st, fid, fn, rv, mir=None):
        k = rv['k']
        if k == 'use':
            return self.operand(st, fid, fn, rv['o'], mir)
        if k in ('ref', 'rawptr'):
            pl = self.canon(st, self.place(st, fid, rv['p']))
            return self.mkref(pl)
        if k == 'cast':
            v = self.operand(st, fid, fn, rv['o'], mir)
            ck = rv['ck']
            if 'Unsize' in ck or 'PtrToPtr' in ck or 'Transmute' in ck or 'ReifyFnPointer' in ck or 'ClosureFnPointer' in ck:
                return v
            if v[0] == 'int':
                return v
            return ('cast', v, rv['to'])
        if k == 'bin':
            a = self.operand(st, fid, fn, rv['a'], mir)
            b = self.operand(st, fid, fn, rv['b'], mir)
            if rv['op'] in ('SubWithOverflow', 'AddWithOverflow', 'MulWithOverflow') and a[0] == 'int' and b[0] == 'int':
                x, y = a[1], b[1]
                r = {'Sub': x - y, 'Add': x + y, 'Mul': x * y}[rv['op'][:3]]
                return ('tuple', (INT(r), INT(1 if (r < 0 or r >= 1 << 64) else 0)))
            if rv['op'] in ('SubWithOverflow', 'AddWithOverflow', 'MulWithOverflow') and not (a[0] == 'int' and b[0] == 'int'):
                # (result, overflowed): unsigned subtraction overflows iff a < b; additions of small constants to lengths cannot overflow
                base = rv['op'][:3]
                if base == 'Sub':
                    return ('tuple', (('bin', 'Sub', a, b), ('bin', 'Lt', a, b)))
                if base == 'Add' and ((a[0] == 'len' and b[0] == 'int' and 0 <= b[1] < 1 << 32) or (b[0] == 'len' and a[0] == 'int' and 0 <= a[1] < 1 << 32)):
                    return ('tuple', (('bin', 'Add', a, b), FALSE))
            return self.binop(st, rv['op'], a, b)
        if k == 'un':
            a = self.operand(st, fid, fn, rv['o'], mir)
            op = rv['op']
            if op == 'Not':
                if a[0] == 'int' and a[1] in (0, 1):
                    return INT(1 - a[1])
                if a[0] == 'un' and a[1] == 'Not':
                    return a[2]
                return ('un', 'Not', a)
            if op == 'PtrMetadata':
                return ('len', self.subject_of(st, a))
            if op == 'Neg' and a[0] == 'int':
                return INT(-a[1])
            return ('un', op, a)
        if k == 'discr':
            pl = self.place(st, fid, rv['p'])
            v = self.read(st, pl)
            ty = rv['p']['ty']
            return self.discr(st, v, ty)
        if k == 'agg':
            kd = rv['kind']
            ops = tuple(self.operand(st, fid, fn, o, mir) for o in rv['ops'])
            a = kd.get('agg')
            if a == 'adt':
                self.p.varidx.setdefault((kd['def'], kd['vname']), kd['variant'])
                return ('adt', kd['def'], kd['vname'], ops)
            if a == 'tuple':
                return ('tuple', ops)
            if a == 'array':
                return ('array', ops)
            if a == 'closure':
                return ('closure', kd['def'], ops)
            return ('agg?', str(a), ops)
        if k == 'repeat':
            return ('repeat', self.operand(st, fid, fn, rv['o'], mir), rv['n'])
        return ('rv?', k)

    def binop(self, st, op, a, b):
        if a[0] == 'int' and b[0] == 'int':
            x, y = a[1], b[1]
            try:
                r = {'Eq': lambda: int(x == y), 'Ne': lambda: int(x != y), 'Lt': lambda: int(x < y), 'Le': lambda: int(x <= y),
                     'Gt': lambda: int(x > y), 'Ge': lambda: int(x >= y), 'Add': lambda: x + y, 'Sub': lambda: x - y,
                     'Mul': lambda: x * y, 'BitAnd': lambda: x & y, 'BitOr': lambda: x | y, 'BitXor': lambda: x ^ y,
                     'AddWithOverflow': lambda: None, 'SubWithOverflow': lambda: None}[op]()
            except KeyError:
                r = None
            if r is not None:
                return INT(r)
        return ('bin', op, a, b)

    def discr(self, st, v, ty):
        if v[0] == 'dcv':
            v = v[1]
        if v[0] == 'adt':
            idx = self.p.varidx.get((v[1], v[2]))
            if idx is None:
                sk = sumkind(ty)
                if sk and v[2] in SUM_VARIANTS[sk]:
                    idx = SUM_VARIANTS[sk].index(v[2])
            if idx is not None:
                return INT(idx)
        return ('discr', v, ty)

    def snap(self, st, v):
        """make a pure term self-contained: a reference to a local becomes a by-value reference to its current value"""
        if v[0] == 'ref' and self.root(v[1])[0] == 'L':
            return ('cref', self.read(st, v[1]))
        return v

    def deep_snap(self, st, v, depth=0):
        """snapshot of a value with every (nested) reference to a local replaced by the local's current value"""
        if depth > 8 or not isinstance(v, tuple) or not v:
            return v
        k = v[0]
        if k == 'ref' and self.root(v[1])[0] == 'L':
            return ('cref', self.deep_snap(st, self.read(st, v[1]), depth + 1))
        if k == 'cref':
            return ('cref', self.deep_snap(st, v[1], depth + 1))
        if k in ('tuple', 'array'):
            return (k, tuple(self.deep_snap(st, x, depth + 1) for x in v[1]))
        if k == 'adt':
            return ('adt', v[1], v[2], tuple(self.deep_snap(st, x, depth + 1) for x in v[3]))
        if k == 'closure':
            return ('closure', v[1], tuple(self.deep_snap(st, x, depth + 1) for x in v[2]))
        return v

    def snap_args(self, st, args):
        return tuple(self.snap(st, a) for a in args)

    def subject_of(self, st, ptr):
        """canonical place of the byte string a pointer value designates"""
        if ptr[0] == 'cref':
            return ('CONST', ptr[1])
        pl = self.canon(st, ('P', ptr))
        if pl[0] in ('L', 'F') and self.root(pl)[0] == 'L':
            v = self.read_opt(st, pl)
            if v[0] == 'arrval':
                return v[1]
            if v[0] == 'array' and v[1] and all(x[0] == 'byte' and x[3] == () and x[2] == i and x[1] == v[1][0][1] for i, x in enumerate(v[1])):
                # an array rebuilt from the first n bytes of a subject whose length is known to be exactly n IS that subject
                subj = v[1][0][1]
                shp = st.shapes.get(subj)
                if shp is not None and shp.lengths() == {len(v[1])}:
                    return subj
        return pl

    # ---------------------------------------------------------------- tags and decisions
    def tag_core(self, v):
        while True:
            k = v[0]
            if k in ('cf', 'map_err', 'ok', 'residual', 'dcv'):
                v = v[1]
            else:
                return v

    def tag_of(self, st, v):
        c = self.tag_core(v)
        if c[0] == 'adt':
            if c[2] in POS_NAMES:
                return 'pos'
            if c[2] in NEG_NAMES:
                return 'neg'
        if c[0] == 'optref':
            return self.tag_of(st, self.read(st, c[1]))
        f = st.facts.get(('tag', self.tag_atom(c)))
        if f is None and c[0] == 'fld':
            # data oracle: a field path into an element of a static table
            path, x = [], c
            while x[0] == 'fld' and isinstance(x[2], int):
                path.append(x[2])
                x = x[1]
            if x[0] == 'elem' and x[1][0] == 'unk' and x[1][1][0] == 'ST':
                f = self.p.static_tag(x[1][1][1], list(reversed(path)))
                if f is not None:
                    self.data_facts_used.add((x[1][1][1], tuple(reversed(path)), f))
        return f

    def tag_atom(self, c):
        if c[0] in ('peekres', 'nextres'):
            return ('has', c[1], c[2])
        return c

    def decide_tag(self, st, v):
        """-> list of ('pos'|'neg', state)"""
        t = self.tag_of(st, v)
        if t is not None:
            return [(t, st)]
        c = self.tag_core(v)
        if c[0] == 'optref':
            inner = self.read(st, c[1])
            return self.decide_tag(st, inner)
        r = self.models.decide_tag(self, st, c)
        if r is not None:
            return r
        out = []
        atom = ('tag', self.tag_atom(c))
        for t in ('pos', 'neg'):
            s2 = st.copy()
            s2.facts[atom] = t
            out.append((t, s2))
        return out

    def decide_bool(self, st, v):
        """-> list of (bool, state); refines shapes where the condition is understood."""
        k = v[0]
        if k == 'int':
            return [(bool(v[1]), st)]
        if k == 'un' and v[1] == 'Not':
            return [(not b, s) for b, s in self.decide_bool(st, v[2])]
        if k == 'cast':
            return self.decide_bool(st, v[1])
        if v in st.facts:
            return [(st.facts[v], st)]
        r = self.models.decide_bool(self, st, v)
        if r is not None:
            return r
        if k == 'bin' and v[1] in ('BitAnd', 'BitOr') :
            out = []
            for a, s1 in self.decide_bool(st, v[2]):
                for b, s2 in self.decide_bool(s1, v[3]):
                    out.append(((a and b) if v[1] == 'BitAnd' else (a or b), s2))
            return out
        self.undecided[self.short(v)] = self.undecided.get(self.short(v), 0) + 1
        out = []
        for b in (True, False):
            s2 = st.copy()
            s2.facts[v] = b
            out.append((b, s2))
        return out

    def short(self, v, n=140):
        s = self.fmt(v)
        return s if len(s) <= n else s[:n] + '...'

    def fmt(self, v, depth=0):
        if not isinstance(v, tuple) or not v:
            return repr(v)
        if depth > 6:
            return '..'
        k = v[0]
        f = lambda x: self.fmt(x, depth + 1)
        if k == 'int':
            return str(v[1])
        if k == 'param':
            return 'arg%d' % v[1]
        if k == 'L':
            return '_%d' % v[2]
        if k == 'P':
            return '*%s' % f(v[1])
        if k == 'F':
            return '%s.%s' % (f(v[1]), v[2])
        if k == 'D':
            return '(%s as %s)' % (f(v[1]), v[2])
        if k == 'ref':
            return '&%s' % f(v[1])
        if k == 'init':
            return f(v[1])
        if k == 'adt':
            return '%s::%s(%s)' % (v[1].split('::')[-1], v[2], ', '.join(f(x) for x in v[3]))
        if k in ('call', 'pure'):
            return '%s(%s)' % ('::'.join(v[1].replace('<', '').replace('>', '').split('::')[-2:]), ', '.join(f(x) for x in v[2]))
        if k == 'tuple':
            return '(%s)' % ', '.join(f(x) for x in v[1])
        if k == 'closure':
            return '{closure %s}' % v[1].split('::', 1)[-1]
        if k in ('str',):
            return repr(v[1])
        return '%s(%s)' % (k, ', '.join(f(x) if isinstance(x, tuple) else repr(x)[:40] for x in v[1:]))

    # ---------------------------------------------------------------- running
    def explore(self, fn, args=None, st=None):
        """Explore top-level function `fn`.  Returns list of Segment."""
        body = self.p.bodies[fn]
        mir = body['mir']
        st = st or State()
        if args is None:
            args = [('param', i) for i in range(1, mir['argc'] + 1)]
        self.segments = []
        self.seen_nodes = {}
        self.top_fn = fn
        self._run(st, fn, list(args), 0, top=True)
        return self.segments

    def _run(self, st, fn, args, depth, top=False):
        """Explore body `fn` from `st`; returns list of (state, retval) for inlined calls; for top records segments."""
        if depth > self.max_depth:
            raise Limit('inline depth exceeded at %s' % fn)
        body = self.p.bodies[fn]
        mir = body['mir']
        blocks = mir['blocks']
        cfg = self.p.cfg(fn)
        loops = cfg.loops() if top else {}
        live = cfg.liveness() if loops else {}
        # only locals that are live at the loop header carry information across iterations
        modified = {h: (cfg.modified_locals(bs) & (live.get(h, set()) | {0})) for h, bs in loops.items()}
        if top:
            self._modfields = {h: cfg.modified_fields(bs) for h, bs in loops.items()}
        fid = self.new_frame(st)
        self.visited_fns.add(fn)
        for i, a in enumerate(args):
            st.frames[fid][i + 1] = a
        results = []
        # work items: (state, block, src_node, events_start_index)
        work = [(st, 0, ('entry', fn), 0)]
        while work:
            st, bi, src, ev0 = work.pop()
            self.nstates += 1
            if self.nstates > self.max_states:
                raise Limit('state budget exceeded in %s' % self.top_fn)
            if self.nstates % 2000 == 0 and rss_kb() > MAX_RSS_KB:
                raise Limit('memory budget exceeded in %s (%d states)' % (self.top_fn, self.nstates))
            if top and bi in loops:
                # loop cut: abstract the loop-modified locals, finish the segment, continue from the header node once
                pre_facts, pre_shapes = dict(st.facts), dict(st.shapes)
                pre_env = dict(st.frames[fid])
                key = self.cut(st, fid, bi, modified[bi], mir, live.get(bi, set()))
                node = ('head', bi, key)
                self.segments.append(Segment(src, node, st, None, st.events[ev0:], 'loop', pre_facts, pre_shapes, pre_env))
                if node in self.seen_nodes:
                    continue
                self.seen_nodes[node] = True
                # a loop whose abstract states keep differing (a loop-carried value built from terms that are fresh in every iteration) never
                # reaches a fixpoint: stop early instead of burning the whole state budget (today's parsers need at most 13 head nodes per loop)
                self.heads_per_loop[bi] = self.heads_per_loop.get(bi, 0) + 1
                if self.heads_per_loop[bi] > self.max_heads:
                    raise Limit('the loop at block %d of %s does not reach a fixpoint within %d abstract states' % (bi, fn, self.max_heads))
                st = st.copy()
                src = node
                ev0 = len(st.events)
            blk = blocks[bi]
            for s in blk['stmts']:
                if s['k'] == 'assign':
                    v = self.rvalue(st, fid, fn, s['rv'])
                    pl = self.place(st, fid, s['lhs'])
                    self.write(st, pl, v, s.get('sp'))
                elif s['k'] == 'setdiscr':
                    pl = self.place(st, fid, s['lhs'])
                    self.write(st, pl, ('setdiscr', self.read(st, pl), s['v']), None)
            t = blk['term']
            k = t['k']
            if k == 'goto':
                work.append((st, t['t'], src, ev0))
            elif k == 'return':
                ret = st.frames[fid].get(0, UNIT)
                if top:
                    self.segments.append(Segment(src, ('return',), st, ret, st.events[ev0:], 'return'))
                else:
                    results.append((st, ret))
            elif k == 'unreachable':
                if top:
                    self.segments.append(Segment(src, ('unreachable',), st, None, st.events[ev0:], 'unreachable'))
            elif k == 'drop':
                work.append((st, t['t'], src, ev0))
            elif k == 'switch':
                v = self.operand(st, fid, fn, t['d'])
                for tb, s2 in self.switch(st, v, t, fid, fn):
                    work.append((s2, tb, src, ev0))
            elif k == 'assert':
                c = self.operand(st, fid, fn, t['c'])
                for b, s2 in self.decide_bool(st, c):
                    if b == bool(t['exp']):
                        work.append((s2, t['t'], src, ev0))
                    else:
                        s2.events.append(('panic', 'assert', t['msg'], t['sp'], fn, bi))
                        if top:
                            self.segments.append(Segment(src, ('panic',), s2, None, s2.events[ev0:], 'panic'))
                        else:
                            results.append((s2, ('PANIC',)))
            elif k == 'call':
                outs = self.call(st, fid, fn, t, depth, bi)
                for s2, rv in outs:
                    if rv == ('PANIC',) or t['t'] is None or t['t'] < 0:
                        if rv != ('PANIC',):
                            s2.events.append(('panic', 'diverge', t['r'] or t['f'], t['sp'], fn, bi))
                        if top:
                            self.segments.append(Segment(src, ('panic',), s2, None, s2.events[ev0:], 'panic'))
                        else:
                            results.append((s2, ('PANIC',)))
                        continue
                    dpl = self.place(s2, fid, t['dest'])
                    self.write(s2, dpl, rv, t['sp'])
                    if dpl[0] == 'L':
                        s2.events.append(('def', dpl, rv, t['sp']))
                    work.append((s2, t['t'], src, ev0))
            else:
                st.notes.append(('term?', k))
        return results

    def switch(self, st, v, t, fid, fn):
        """-> list of (target block, state)"""
        targets = [(int(x), b) for x, b in t['t']]
        tmap = dict(targets)
        other = t['else']
        if v[0] == 'int':
            return [(tmap.get(v[1], other), st)]
        if v[0] == 'discr' and v[1][0] == 'tbyte':
            r = self.models.decide_switch(self, st, v[1], targets, other)
            if r is not None:
                return r
        if v[0] == 'discr':
            inner, ty = v[1], v[2]
            sk = sumkind(ty)
            if sk:
                out = []
                for tag, s2 in self.decide_tag(st, inner):
                    name = [n for n in SUM_VARIANTS[sk] if (n in POS_NAMES) == (tag == 'pos')][0]
                    idx = SUM_VARIANTS[sk].index(name)
                    out.append((tmap.get(idx, other), s2))
                return out
            names = self.p.enum_variants(ty)
            known = st.facts.get(('discr', inner))
            if known is not None:
                return [(tmap.get(known, other), st)]
            if names:
                out = []
                for idx in range(len(names)):
                    s2 = st.copy()
                    s2.facts[('discr', inner)] = idx
                    out.append((tmap.get(idx, other), s2))
                return out
        # boolean?
        if set(tmap.keys()) <= {0, 1} and self.is_boolish(v):
            out = []
            for b, s2 in self.decide_bool(st, v):
                out.append((tmap.get(int(b), other), s2))
            return out
        r = self.models.decide_switch(self, st, v, targets, other)
        if r is not None:
            return r
        # unknown integer: every target possible
        self.undecided[self.short(v)] = self.undecided.get(self.short(v), 0) + 1
        out = []
        for val, b in targets:
            s2 = st.copy()
            s2.facts[('eq', v, val)] = True
            out.append((b, s2))
        s2 = st.copy()
        out.append((other, s2))
        return out

    def is_boolish(self, v):
        return v[0] in ('bin', 'un', 'pred', 'pure', 'call', 'cast', 'int', 'lv', 'init', 'fld', 'param', 'pos', 'elem', 'byteeq')

    # ---------------------------------------------------------------- loop cut
    def abstract(self, st, v, key, depth=0):
        """keep constants and variant tags, forget symbolic payloads"""
        k = v[0]
        if k == 'int':
            return v
        if k == 'adt' and depth < 2:
            return ('adt', v[1], v[2], tuple(self.abstract(st, x, key + (i,), depth + 1) for i, x in enumerate(v[3])))
        if k == 'tuple' and depth < 2 and len(v[1]) <= 4:
            return ('tuple', tuple(self.abstract(st, x, key + (i,), depth + 1) for i, x in enumerate(v[1])))
        if k in ('zst',) or v == UNIT:
            return v
        if k == 'closure' and depth < 2:
            # calling an FnMut closure may change what it captured by value, never where its captured references point
            return ('closure', v[1], tuple(x if (isinstance(x, tuple) and x and x[0] in ('ref', 'param')) else self.abstract(st, x, key + (i,), depth + 1) for i, x in enumerate(v[2])))
        if k in ('peekres', 'nextres') and (v[1], v[2]) in getattr(self, '_remap', {}):
            # the token cell of a parser loop: the element looked at (peek) / just taken (next) keeps its identity across the cut
            which = self._remap[(v[1], v[2])][2]
            return ('atok', k, v[1], 'cur' if which == 1 else 'last', self.tag_of(st, v))
        t = None
        if k in ('cf', 'map_err', 'ok', 'call', 'pure', 'peekres', 'nextres', 'lv', 'init', 'pos'):
            t = self.tag_of(st, v)
        return ('lv', key, t)

    def cut(self, st, fid, header, modified, mir, live=()):
        env = st.frames[fid]
        keyparts = []
        carried_tags = []
        # iterator cursors get fresh element ids; the element under the cursor and the one just consumed are remapped (not forgotten)
        self._remap = {}
        newcur = {}
        for it in list(st.iters):
            cur = st.iters[it]['k']
            U = st.uid()
            self._remap[(it, cur)] = ('e', U, 1)
            self._remap[(it, ('e', cur[1], cur[2] - 1))] = ('e', U, -1)      # the element consumed last (a `st = iter.next()` cell)
            newcur[it] = ('e', U, 1)
        self._newcur = newcur
        # what the path has already established about the element under the cursor (peeked, tested, not consumed: `if let Some(x) = peek().and_then(parse)`
        # in a sequence of phases) stays true for the same element after the cut; it is part of the head node's identity
        carry_shapes, carry_facts = {}, {}
        for it in list(st.iters):
            old, new = st.iters[it]['k'], newcur[it]
            shp = st.shapes.get(('T', it, old))
            if shp is not None:
                carry_shapes[('T', it, new)] = shp
            has = st.facts.get(('tag', ('has', it, old)))
            if has is not None:
                carry_facts[('tag', ('has', it, new))] = has
            if shp is not None or has is not None:
                keyparts.append(('cursor', self.short(it, 80), shp.describe() if shp is not None else None, has))
        for l in sorted(set(modified) | set(live)):
            if l not in env or l <= 0:
                continue
            a = self.abstract(st, env[l], (l,))
            mf = getattr(self, '_modfields', {}).get(header, {}).get(l)
            v0 = env[l]
            if l in modified and mf and isinstance(v0, tuple) and v0 and v0[0] == 'adt' and a[0] == 'adt' and len(v0[3]) == len(a[3]) and max(mf) < len(v0[3]):
                # a struct of which the loop writes some fields only: the other fields keep their value (and what is known about it)
                a = ('adt', a[1], a[2], tuple(a[3][i] if i in mf else ('keep', v0[3][i]) for i in range(len(a[3]))))
            # the head node is identified by the abstract value of every live local; only the loop-modified ones are forgotten
            keyparts.append((l, self.strip_uids(a)))
            if l in modified:
                env[l] = self.instantiate(st, a, carried_tags)
        # opaque-rooted store entries written so far stay (they are keyed by entry places); facts on fresh terms
        # of earlier iterations are harmless (uids are never reused).  Iterator cursors are abstracted:
        for it in list(st.iters):
            st.iters[it] = {'k': newcur[it], 'peeked': None}
        # facts and shapes about values of earlier iterations are dropped: nothing can refer to them any more (loop-carried
        # locals were replaced by fresh 'lv' terms, iterator cursors by fresh element ids)
        st.facts = {a: b for a, b in st.facts.items() if self.is_persistent(a)}
        st.shapes = {a: b for a, b in st.shapes.items() if self.is_persistent(a)}
        for atom, t in carried_tags:
            st.facts[('tag', atom)] = t
        st.shapes.update(carry_shapes)
        for a, b in carry_facts.items():
            st.facts.setdefault(a, b)
        # persistent facts: only those about parameters / initial places
        pf = tuple(sorted((self.short(a, 300), str(b)) for a, b in st.facts.items() if self.is_persistent(a)))
        return (tuple(keyparts), pf)

    def is_persistent(self, a):
        s = repr(a)
        return "'lv'" not in s and "'call'" not in s and "'e'," not in s and "'T'," not in s and "'PK'," not in s

    def strip_uids(self, a):
        if isinstance(a, tuple):
            if a and a[0] == 'lv':
                return ('lv', a[1], a[2])
            if a and a[0] == 'atok':
                return a
            return tuple(self.strip_uids(x) for x in a)
        return a

    def instantiate(self, st, a, carried):
        if isinstance(a, tuple) and a and a[0] == 'lv':
            v = ('lv', a[1], st.uid())
            if a[2] is not None:
                carried.append((v, a[2]))
            return v
        if isinstance(a, tuple) and a and a[0] == 'atok':
            it = a[2]
            el = self._newcur[it] if a[3] == 'cur' else ('e', self._newcur[it][1], -1)
            v = (a[1], it, el)
            if a[4] is not None:
                carried.append((('has', it, el), a[4]))
            return v
        if isinstance(a, tuple) and a and a[0] == 'keep':
            return a[1]
        if isinstance(a, tuple) and a and a[0] == 'adt':
            return ('adt', a[1], a[2], tuple(self.instantiate(st, x, carried) for x in a[3]))
        if isinstance(a, tuple) and a and a[0] == 'tuple':
            return ('tuple', tuple(self.instantiate(st, x, carried) for x in a[1]))
        if isinstance(a, tuple) and a and a[0] == 'closure':
            return ('closure', a[1], tuple(self.instantiate(st, x, carried) for x in a[2]))
        return a

    # ---------------------------------------------------------------- calls
    def call(self, st, fid, fn, t, depth, bi):
        name = t['r'] or t['f']
        args = [self.operand(st, fid, fn, a) for a in t['args']]
        ev = ('call', name, tuple(args), t['sp'], fn, bi, t['f'], t['ga'], t.get('exp', False), tuple(self.shared_ref_operand(t, i) for i in range(len(args))))
        # repository body available?
        target = self.resolve(name, t, args)
        if target is not None and target in self.p.bodies and target not in self.opaque and self.inline \
                and (self.inline_loops or not self.p.has_loops(target)) and depth < self.max_depth:
            if self.p.bodies[target]['kind'] == 'Closure' and len(args) == 2 and args[1][0] == 'tuple' \
                    and self.p.bodies[target]['mir']['argc'] == 1 + len(args[1][1]) and ('ops::Fn' in t['f'] or 'FnOnce' in t['f'] or 'FnMut' in t['f']):
                # rust-call ABI: Fn::call(closure, (a, b, ..)) - the closure body takes its arguments spread
                args = [args[0]] + list(args[1][1])
            st.events.append(('enter', target, tuple(args), t['sp'], fn, bi))
            self.ga_stack.append(t.get('ga', ''))
            try:
                outs = self._run(st, target, args, depth + 1)
            finally:
                self.ga_stack.pop()
            res = []
            for s2, rv in outs:
                s2.events.append(('leave', target, rv, t['sp']))
                if target in self.wrap_returns and rv != ('PANIC',):
                    rv = ('ret', target, tuple(args), rv)
                res.append((s2, rv))
            return res
        if target is None and re.search(r'ops::(function::)?Fn(Once|Mut)?::call(_once|_mut)?$', name) and len(args) == 2 and args[1][0] == 'tuple':
            # a callback parameter invoked inside an inlined generic helper: the callee is the closure / fn item the caller passed
            fv = args[0]
            for _ in range(3):
                if fv[0] in ('ref', 'cref'):
                    try:
                        fv = self.deref_value(st, fv)
                    except Exception:
                        break
            if fv[0] in ('closure', 'fn'):
                return self.call_closure(st, fv, list(args[1][1]), depth)
        if name == '<indirect>' and t.get('fop') is not None:
            # a call through a function pointer whose value is known on this path (a fn item or closure handed to an inlined helper)
            try:
                fv = self.operand(st, fid, fn, t['fop'])
                for _ in range(3):
                    if fv[0] in ('ref', 'cref'):
                        fv = self.deref_value(st, fv)
            except Exception:
                fv = None
            if fv is not None and fv[0] in ('closure', 'fn'):
                return self.call_closure(st, fv, list(args), depth)
        st.events.append(ev)
        self.cur_site = (fn, bi)
        # the std / tinystr summaries are keyed by path suffixes: they must never be applied to a repository function that happens to be
        # called `sort`, `len`, `clear` ... (such a function is explored inline or kept opaque, its name means nothing)
        r = self.models.call(self, st, name, t, args, fid, fn) if not (target is not None and target in self.p.bodies) else None
        if r is not None:
            return r
        if target is not None and target in self.p.bodies:
            # repository function kept opaque (has loops / listed opaque)
            return self.opaque_call(st, target, t, args, effects=True)
        self.unmodelled[name] = self.unmodelled.get(name, 0) + 1
        return self.opaque_call(st, name, t, args, effects=True)

    def opaque_call(self, st, name, t, args, effects=True):
        if effects and name in self.p.bodies:
            # a repository function that receives an iterator may consume any number of elements: fresh cursor afterwards
            for a in args:
                try:
                    it = self.models.iter_id(self, st, a)
                except Exception:
                    it = None
                if it is not None and it in st.iters:
                    st.iters[it] = {'k': ('e', st.uid(), 0)}
        if effects:
            for i, a in enumerate(args):
                # a &mut argument may be written through: havoc the pointee (type-directed: declared arg type unknown here,
                # so use the MIR operand: refs to locals created with &mut are marked by the caller's rvalue; we havoc
                # conservatively every local-rooted place whose reference is passed and whose call is not known pure)
                if a[0] == 'ref' and a[1][0] in ('L', 'F') and self.root(a[1])[0] == 'L' and not self.shared_ref_operand(t, i):
                    pl = a[1]
                    old = self.read(st, pl)
                    self.write_quiet(st, pl, ('mut', old, name, st.uid(), tuple(self.snap(st, x) for x in args[:i] + args[i + 1:])))
        return [(st, ('call', name, tuple(args), st.uid()))]

    @staticmethod
    def shared_ref_operand(t, i):
        """is argument i of call terminator t a shared reference (`&T`, not `&mut T`) by its MIR operand type?"""
        try:
            o = t['args'][i]
        except (IndexError, KeyError, TypeError):
            return False
        pl = o.get('move') or o.get('copy')
        ty = (pl or {}).get('ty') or (o.get('const') or {}).get('cty') or ''
        ty = ty.strip()
        return ty.startswith('&') and not ty.startswith('&mut') and 'Cell<' not in ty and 'Mutex<' not in ty and 'Atomic' not in ty

    def write_quiet(self, st, pl, val):
        n = len(st.events)
        self.write(st, pl, val)
        del st.events[n:]

    def root(self, pl):
        while pl[0] in ('F', 'D', 'I', 'S'):
            pl = pl[1]
        return pl

    def resolve(self, name, t, args):
        if name in self.p.bodies:
            return name
        # str::parse::<T>() is <T as FromStr>::from_str (std: `FromStr::from_str(self)`)
        if name.endswith('str::<impl str>::parse'):
            ga = t.get('ga', '').strip('[]')
            parts = [x.strip() for x in self.split_top(ga)]
            if parts:
                for imp in self.p.facts.impls:
                    if imp['trait_def'].endswith('str::FromStr') and self.ty_eq(imp['self_ty'], parts[0]):
                        for it in imp['items']:
                            if it.endswith('::from_str') and it in self.p.bodies:
                                return it
        # <T as Into<U>>::into  ->  <U as From<T>>::from in the repository
        if name.endswith('<T as std::convert::Into<U>>::into') or name.endswith('convert::Into::into'):
            ga = t['ga'].strip('[]')
            parts = [x.strip() for x in self.split_top(ga)]
            if len(parts) == 2:
                src, dst = parts
                for imp in self.p.facts.impls:
                    if imp['trait_def'].endswith('convert::From') and self.ty_eq(imp['self_ty'], dst) \
                            and self.ty_eq(self.from_arg(imp['trait']), src):
                        for it in imp['items']:
                            if it.endswith('::from'):
                                return it
        return None

    @staticmethod
    def from_arg(trait_str):
        # '<u32 as std::convert::From<subtags::region::Region>>' -> 'subtags::region::Region'
        m = re.search(r'convert::From<(.*)>>$', trait_str)
        return m.group(1) if m else ''

    @staticmethod
    def split_top(s):
        out, depth, cur = [], 0, ''
        for ch in s:
            if ch in '<([':
                depth += 1
            elif ch in '>)]':
                depth -= 1
            if ch == ',' and depth == 0:
                out.append(cur)
                cur = ''
            else:
                cur += ch
        if cur.strip():
            out.append(cur)
        return out

    @staticmethod
    def ty_eq(a, b):
        def norm(x):
            x = re.sub(r"'[a-z_0-9]+ ", '', x.strip())
            x = re.sub(r'\[[0-9a-f]{4}\]', '', x)
            # drop crate prefix of repository paths
            x = re.sub(r'\bunic_(langid|locale)_impl::', '', x)
            return x.replace(' ', '')
        return norm(a) == norm(b)

    def call_closure(self, st, clos, args, depth=1):
        """call a closure value with argument values; -> list of (state, retval)"""
        if clos[0] == 'closure' and clos[1] in self.p.bodies:
            # Fn / FnMut closure bodies take `&{closure}` / `&mut {closure}`: hand the closure value over behind a by-value reference so that
            # captured variables (`(*_1).0`) are found
            lt = self.p.bodies[clos[1]]['mir']['locals']
            selfarg = ('cref', clos) if len(lt) > 1 and str(lt[1]).lstrip().startswith('&') else clos
            return self._run(st, clos[1], [selfarg] + list(args), depth + 1)
        if clos[0] == 'fn' and clos[1] in self.p.bodies and not self.p.has_loops(clos[1]):
            return self._run(st, clos[1], list(args), depth + 1)
        if clos[0] == 'fn' and clos[1] not in self.p.bodies:
            # a trait method item (`Into::into`) that resolves to a repository impl: inline it
            tgt = self.resolve(clos[1], {'ga': clos[2] if len(clos) > 2 else ''}, list(args))
            if tgt is not None and tgt in self.p.bodies and not self.p.has_loops(tgt):
                return self._run(st, tgt, list(args), depth + 1)
        if clos[0] == 'fn' and clos[1] not in self.p.bodies:
            # an external function with a semantic model (u8 / TinyStr predicates, conversions ...) used as a callback
            fake = {'ga': clos[2] if len(clos) > 2 else '', 'dest': {'ty': '', 'l': 0, 'p': []}, 'sp': None, 'args': [], 'f': clos[1], 'r': clos[1]}
            try:
                r = self.models.call(self, st, clos[1], fake, list(args), None, None)
            except Exception:
                r = None
            if r is not None:
                return r
        if clos[0] == 'fn' and clos[1] not in self.p.bodies:
            # a tuple-variant / tuple-struct constructor used as a function (`map_err(Error::Variant)`)
            owner, _, vname = clos[1].rpartition('::')
            if (owner, vname) in self.p.varidx:
                return [(st, ('adt', owner, vname, tuple(args)))]
            if owner in self.p.facts.adts and self.p.facts.adts[owner]['kind'] == 'struct' and owner.rpartition('::')[2] == vname:
                return [(st, ('adt', owner, vname, tuple(args)))]
        if clos[0] == 'fn' and clos[1] not in self.p.bodies and self.models.totality(clos[1]) == 'total':
            # an external function item used as a callback (Vec::new, String::new, ...): a pure application
            return [(st, ('pure', clos[1], tuple(args)))]
        return [(st, ('call', 'closure?', (clos,) + tuple(args), st.uid()))]
