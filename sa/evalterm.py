"""Evaluation of PX terms on a concrete *model* environment (checker-side data, never the library): used to apply a
decision list extracted from the code to finite CLDR data (C14).  Anything not understood raises NotEvaluable (fail closed)."""
import re
from . import tab


class NotEvaluable(Exception):
    pass


NONE = ('none',)


def some(x):
    return ('some', x)


def struct(*fields):
    return ('struct', list(fields))


def tiny(text):
    return ('tiny', text)


def model_langid(lang, script, region):
    """lang/script/region: canonical text or None"""
    return struct(struct(some(tiny(lang)) if lang else NONE),
                  some(struct(tiny(script))) if script else NONE,
                  some(struct(tiny(region))) if region else NONE,
                  ('opaque', 'variants'))


class Evaluator:
    def __init__(self, params, calls=None):
        self.params = params          # index -> model value
        self.calls = calls or {}      # fn name -> python callable(list of model values) -> model value
        self.touched_opaque = []

    def ev(self, t, depth=0):
        if depth > 80 or not isinstance(t, tuple) or not t:
            raise NotEvaluable('term %r' % (t,))
        k = t[0]
        if k == 'param':
            if t[1] not in self.params:
                raise NotEvaluable('parameter %d' % t[1])
            return self.params[t[1]]
        if k in ('ref', 'cref', 'init', 'P'):
            return self.ev(t[1], depth + 1)
        if k in ('F', 'fld'):
            b = self.ev(t[1], depth + 1)
            if b[0] == 'struct' and isinstance(t[2], int) and t[2] < len(b[1]):
                v = b[1][t[2]]
                if v[0] == 'opaque':
                    self.touched_opaque.append(v[1])
                    raise NotEvaluable('reads %s' % v[1])
                return v
            raise NotEvaluable('field %r of %r' % (t[2], b[0]))
        if k in ('pos',):
            b = self.ev(t[1], depth + 1)
            if b[0] == 'some':
                return b[1]
            raise NotEvaluable('payload of None')
        if k in ('D', 'dcv'):
            b = self.ev(t[1], depth + 1)
            if t[2] in ('Some', 'Ok'):
                if b[0] == 'some':
                    return b[1]
                raise NotEvaluable('payload of None')
            raise NotEvaluable('variant %s' % t[2])
        if k == 'optref':
            return self.ev(t[1], depth + 1)
        if k == 'int':
            return t[1]
        if k == 'adt':
            if t[2] == 'None' and not t[3]:
                return NONE
            if t[2] == 'Some' and len(t[3]) == 1:
                return some(self.ev(t[3][0], depth + 1))
            return struct(*[self.ev(x, depth + 1) for x in t[3]])
        if k == 'tuple':
            return struct(*[self.ev(x, depth + 1) for x in t[1]])
        if k == 'bytes':
            m = re.match(r'^\[(u\d+); (\d+)\]$', t[2])
            if m:
                w = int(m.group(1)[1:]) // 8
                return ('ints', [int.from_bytes(t[1][i:i + w], 'little') for i in range(0, len(t[1]), w)], m.group(1))
            raise NotEvaluable('constant of type %s' % t[2])
        if k == 'pure':
            name = t[1]
            last = name.split('::')[-1]
            if last in ('as_ref', 'borrow', 'deref', 'clone', 'as_deref') and len(t[2]) == 1:
                return self.ev(t[2][0], depth + 1)
            if last == 'all_bytes':
                b = self.ev(t[2][0], depth + 1)
                if b[0] == 'tiny':
                    return ('allbytes', b[1])
                raise NotEvaluable('all_bytes of %s' % b[0])
            m = re.search(r'<impl (u\d+)>::from_(le|be)_bytes$', name)
            if m:
                b = self.ev(t[2][0], depth + 1)
                if b[0] == 'allbytes':
                    return tab.enc(b[1], int(m.group(1)[1:]) // 8, {'le': 'little', 'be': 'big'}[m.group(2)])
                raise NotEvaluable('from_bytes of %s' % b[0])
            if last == 'contains' and len(t[2]) == 2:
                a = self.ev(t[2][0], depth + 1)
                x = self.ev(t[2][1], depth + 1)
                if a[0] == 'ints' and isinstance(x, int):
                    return x in a[1]
                raise NotEvaluable('contains on %s' % a[0])
            if name == 'eq':
                return self.ev(t[2][0], depth + 1) == self.ev(t[2][1], depth + 1)
            raise NotEvaluable('function %s' % name)
        if k == 'call':
            if t[1] in self.calls:
                return self.calls[t[1]]([self.ev(a, depth + 1) for a in t[2]])
            raise NotEvaluable('call %s' % t[1])
        raise NotEvaluable('term kind %s' % k)

    def fact(self, key):
        """truth value / tag of a PX fact key"""
        if key[0] == 'tag':
            v = self.ev(key[1])
            if v[0] == 'some':
                return 'pos'
            if v[0] == 'none':
                return 'neg'
            raise NotEvaluable('tag of %s' % v[0])
        v = self.ev(key)
        if isinstance(v, bool):
            return v
        raise NotEvaluable('boolean %r' % (v,))


def subtag_text(v):
    """model value of an optional subtag -> text or None"""
    if v[0] == 'none':
        return None
    if v[0] == 'some':
        v = v[1]
    while v[0] == 'struct' and len(v[1]) == 1:
        v = v[1][0]
        if v[0] == 'some':
            v = v[1]
        elif v[0] == 'none':
            return None
    if v[0] == 'tiny':
        return v[1]
    raise NotEvaluable('subtag %r' % (v,))
