"""FEAT — Cargo feature wiring of the workspace, read from the manifests (`cargo metadata --no-deps --offline`: no build, no resolution).

The code of `character_direction`, `maximize`, the serde impls is selected by `cfg(feature = ..)` of unic-langid-impl; a user switches those
features on through whichever crate of the workspace they depend on.  Rule: in every workspace package that declares a feature with the name of
an unic-langid-impl feature (likelysubtags, serde), that feature transitively enables the unic-langid-impl feature of the same name - otherwise
"feature on" silently selects the feature-less code."""
import json
import subprocess
from . import facts

IMPL = 'unic-langid-impl'
NAMES = ('likelysubtags', 'serde')


def metadata(repo=None):
    repo = repo or facts.REPO
    r = subprocess.run(['cargo', 'metadata', '--no-deps', '--format-version', '1', '--offline'], cwd=repo, capture_output=True, text=True)
    if r.returncode != 0:
        raise facts.AnalysisError('cargo metadata failed: %s' % r.stderr[-1000:])
    return json.loads(r.stdout)


def closure(pkgs, pkg, feat, seen=None):
    """set of (package, feature) switched on by enabling `feat` of `pkg` (dependency renames are not used in this workspace)"""
    seen = seen if seen is not None else set()
    if (pkg, feat) in seen or pkg not in pkgs:
        return seen
    seen.add((pkg, feat))
    for item in pkgs[pkg]['features'].get(feat, []):
        if item.startswith('dep:'):
            seen.add((item[4:], 'dep'))       # the optional dependency itself is switched on
            continue
        if '/' in item:
            d, f = item.split('/', 1)
            d = d.rstrip('?')
            closure(pkgs, d, f, seen)
        elif item in pkgs[pkg]['features']:
            closure(pkgs, pkg, item, seen)
        else:
            # an optional dependency switched on by name: its default features
            closure(pkgs, item, 'default', seen)
    return seen


def check(rep):
    m = metadata()
    pkgs = {p['name']: p for p in m['packages']}
    n = 0
    if IMPL not in pkgs:
        rep.ob('feat:anchor', 'FEAT-WIRING', '-', '-', 'package %s found' % IMPL, False, 'ANCHOR-MISSING')
        return 0
    for name in NAMES:
        if name not in pkgs[IMPL]['features']:
            rep.ob('feat:%s:anchor' % name, 'FEAT-WIRING', IMPL, pkgs[IMPL]['manifest_path'], 'feature %s of %s found' % (name, IMPL), False, 'ANCHOR-MISSING')
            continue
        for pn, p in sorted(pkgs.items()):
            if pn == IMPL or name not in p['features']:
                continue
            n += 1
            reach = closure(pkgs, pn, name)
            ok = (IMPL, name) in reach
            rep.ob('feat:%s:%s' % (pn, name), 'FEAT-WIRING', pn, p['manifest_path'].replace(facts.REPO.rstrip('/') + '/', ''),
                   'feature %s of %s switches on %s/%s (the code the feature selects lives there)' % (name, pn, IMPL, name), ok,
                   detail='enabling %s/%s reaches only %s' % (pn, name, sorted('%s/%s' % x for x in reach)), how='feature closure over the workspace manifests')
    # the `macros` feature of a facade crate must switch on the optional dependency that provides the macros (unic-langid -> unic-langid-macros)
    for pn, p in sorted(pkgs.items()):
        if 'macros' not in p['features']:
            continue
        opt = [d['name'] for d in p.get('dependencies', []) if d.get('optional') and d['name'].endswith('-macros')]
        for dep in opt:
            n += 1
            reach = closure(pkgs, pn, 'macros')
            ok = any(x[0] == dep for x in reach)
            rep.ob('feat:%s:macros' % pn, 'FEAT-WIRING', pn, p['manifest_path'].replace(facts.REPO.rstrip('/') + '/', ''),
                   'feature macros of %s switches on the optional dependency %s (which exports the macros)' % (pn, dep), ok,
                   detail='enabling %s/macros reaches only %s' % (pn, sorted('%s/%s' % x for x in reach)), how='feature closure over the workspace manifests')
    return n
