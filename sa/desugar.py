"""MIR normalisation: `iter.map(f).collect::<Result<Vec<T>, E>>()` is rewritten into the loop it abbreviates

    v = Vec::new();
    loop { match iter.next() { None => break Ok(v), Some(x) => match f(x) { Ok(y) => v.push(y), Err(e) => break Err(e) } } }

(the documented behaviour of `FromIterator for Result<V, E>`: elements are taken until the first `Err`, which is returned; otherwise the
collection of the `Ok` payloads).  The path explorer, the loop rules of C01 and the parser-table extraction then see an ordinary loop.
Only this exact shape is rewritten (map immediately consumed by collect into Result<Vec<_>, _>); anything else is left as it is."""
import copy
import re


def _place(l, ty, proj=()):
    return {'l': l, 'p': list(proj), 'ty': ty}


def _first_generic(ty):
    i = ty.find('<')
    if i < 0 or not ty.endswith('>'):
        return None
    depth, cur = 0, ''
    for ch in ty[i + 1:-1]:
        if ch in '<([':
            depth += 1
        elif ch in '>)]':
            depth -= 1
        if ch == ',' and depth == 0:
            break
        cur += ch
    return cur.strip()


def desugar_body(mir):
    """-> number of rewrites"""
    blocks = mir['blocks']
    locals_ = mir['locals']
    n = 0
    for ai in range(len(blocks)):
        A = blocks[ai]
        ta = A['term']
        if ta['k'] != 'call' or not re.search(r'iter::Iterator::map$|as std::iter::Iterator>::map$', ta.get('r') or ta.get('f') or '') or len(ta['args']) != 2:
            continue
        bi = ta.get('t')
        if bi is None or bi < 0 or bi >= len(blocks):
            continue
        B = blocks[bi]
        tb = B['term']
        if B['stmts'] or tb['k'] != 'call' or not re.search(r'iter::Iterator::collect$', tb.get('r') or tb.get('f') or '') or len(tb['args']) != 1:
            continue
        src = tb['args'][0].get('move') or tb['args'][0].get('copy')
        if not src or src['p'] or src['l'] != ta['dest']['l'] or ta['dest']['p']:
            continue
        dty = tb['dest']['ty']
        if not dty.startswith('std::result::Result<std::vec::Vec<') or tb['dest']['p']:
            continue
        itop = ta['args'][0]
        itpl = itop.get('move') or itop.get('copy')
        if not itpl or not itpl['ty'].startswith('&mut '):
            continue            # the iterator is consumed by value: there is no place to call next on (left as it is)
        fop = ta['args'][1]
        callee, fargs_prefix = None, []
        if 'const' in fop and fop['const'].get('fn'):
            callee = fop['const']['fn']
        else:
            fpl = fop.get('move') or fop.get('copy')
            if fpl and not fpl['p']:
                for blk in blocks:
                    for st in blk['stmts']:
                        if st['k'] == 'assign' and st['lhs']['l'] == fpl['l'] and not st['lhs']['p'] and st['rv']['k'] == 'agg' and st['rv']['kind'].get('agg') == 'closure':
                            callee = st['rv']['kind'].get('def')
                if callee:
                    locals_.append('&' + fpl['ty'])
                    cref = len(locals_) - 1
                    fargs_prefix = [(cref, fpl)]
        if not callee:
            continue
        vec_ty = _first_generic(dty)                       # std::vec::Vec<T>
        elem_ty = _first_generic(vec_ty) or '?'
        item_ty = '?'
        m = re.search(r'Item = ([^>]+(?:<[^>]*>)?)>', itpl['ty'])
        if m:
            item_ty = m.group(1)
        res_ty = 'std::result::Result<%s, %s>' % (elem_ty, dty[len('std::result::Result<') + len(vec_ty) + 2:-1])
        opt_ty = 'std::option::Option<%s>' % item_ty
        sp = tb.get('sp')
        base = len(locals_)
        locals_.extend([vec_ty, opt_ty, 'isize', res_ty, 'isize', '&mut ' + vec_ty, '()'])
        Lv, Ln, Ld1, Lr, Ld2, Lref, Lunit = range(base, base + 7)
        target = tb['t']
        dest = tb['dest']
        nb = len(blocks)
        H, S1, CALL, S2, PUSH, ERR, EXIT = range(nb, nb + 7)

        def call(f, args, dst, t, ga=''):
            return {'k': 'call', 'f': f, 'r': f, 'ga': ga, 'args': args, 'dest': dst, 't': t, 'sp': sp, 'exp': False}
        # A: v = Vec::new()
        A['term'] = call('alloc::std::vec::Vec::<T>::new', [], _place(Lv, vec_ty), H, '[%s]' % elem_ty)
        # B is dead now
        blocks[bi] = {'cleanup': False, 'stmts': [], 'term': {'k': 'unreachable'}}
        it_copy = {'copy': copy.deepcopy(itpl)}
        blocks.append({'cleanup': False, 'stmts': [], 'term': call('core::std::iter::Iterator::next', [it_copy], _place(Ln, opt_ty), S1, '[%s]' % itpl['ty'][5:])})
        blocks.append({'cleanup': False, 'stmts': [{'k': 'assign', 'lhs': _place(Ld1, 'isize'), 'rv': {'k': 'discr', 'p': _place(Ln, opt_ty)}, 'sp': sp, 'exp': False}],
                       'term': {'k': 'switch', 'd': {'move': _place(Ld1, 'isize')}, 't': [['0', EXIT], ['1', CALL]], 'else': EXIT}})
        elem = {'copy': _place(Ln, item_ty, [{'dc': 1, 'n': 'Some'}, {'f': 0}])}
        pre = []
        args = [elem]
        if fargs_prefix:
            cref, fpl = fargs_prefix[0]
            pre.append({'k': 'assign', 'lhs': _place(cref, '&' + fpl['ty']), 'rv': {'k': 'ref', 'mut': False, 'p': copy.deepcopy(fpl)}, 'sp': sp, 'exp': False})
            args = [{'move': _place(cref, '&' + fpl['ty'])}, elem]
        blocks.append({'cleanup': False, 'stmts': pre, 'term': call(callee, args, _place(Lr, res_ty), S2)})
        blocks.append({'cleanup': False, 'stmts': [{'k': 'assign', 'lhs': _place(Ld2, 'isize'), 'rv': {'k': 'discr', 'p': _place(Lr, res_ty)}, 'sp': sp, 'exp': False}],
                       'term': {'k': 'switch', 'd': {'move': _place(Ld2, 'isize')}, 't': [['0', PUSH], ['1', ERR]], 'else': ERR}})
        blocks.append({'cleanup': False, 'stmts': [{'k': 'assign', 'lhs': _place(Lref, '&mut ' + vec_ty), 'rv': {'k': 'ref', 'mut': True, 'p': _place(Lv, vec_ty)}, 'sp': sp, 'exp': False}],
                       'term': call('alloc::std::vec::Vec::<T, A>::push', [{'move': _place(Lref, '&mut ' + vec_ty)}, {'move': _place(Lr, elem_ty, [{'dc': 0, 'n': 'Ok'}, {'f': 0}])}],
                                    _place(Lunit, '()'), H, '[%s, std::alloc::Global]' % elem_ty)})
        rdef = 'core::std::result::Result'
        blocks.append({'cleanup': False, 'stmts': [{'k': 'assign', 'lhs': copy.deepcopy(dest), 'rv': {'k': 'agg', 'kind': {'agg': 'adt', 'def': rdef, 'vname': 'Err', 'variant': 1},
                                                                                                    'ops': [{'move': _place(Lr, '?', [{'dc': 1, 'n': 'Err'}, {'f': 0}])}]}, 'sp': sp, 'exp': False}],
                       'term': {'k': 'goto', 't': target}})
        blocks.append({'cleanup': False, 'stmts': [{'k': 'assign', 'lhs': copy.deepcopy(dest), 'rv': {'k': 'agg', 'kind': {'agg': 'adt', 'def': rdef, 'vname': 'Ok', 'variant': 0},
                                                                                                    'ops': [{'move': _place(Lv, vec_ty)}]}, 'sp': sp, 'exp': False}],
                       'term': {'k': 'goto', 't': target}})
        n += 1
    return n


def desugar_from_fn(mir):
    """`std::iter::from_fn(closure).collect::<Vec<T>>()` is the loop `v = Vec::new(); while let Some(x) = closure() { v.push(x) }; v`
    (documented behaviour of `FromFn::next` = calling the closure, and of `FromIterator for Vec`).  Only this exact shape."""
    blocks = mir['blocks']
    locals_ = mir['locals']
    n = 0
    for ai in range(len(blocks)):
        A = blocks[ai]
        ta = A['term']
        if ta['k'] != 'call' or not re.search(r'iter::from_fn$', ta.get('r') or ta.get('f') or '') or len(ta['args']) != 1 or ta['dest']['p']:
            continue
        bi = ta.get('t')
        if bi is None or bi < 0 or bi >= len(blocks):
            continue
        B = blocks[bi]
        tb = B['term']
        if tb['k'] != 'call' or not re.search(r'iter::Iterator::collect$', tb.get('r') or tb.get('f') or '') or len(tb['args']) != 1 or tb['dest']['p']:
            continue
        # between the two calls only constants may be assigned to other locals (drop flags)
        if any(not (st['k'] == 'assign' and st['rv']['k'] == 'use' and 'const' in st['rv']['o'] and st['lhs']['l'] != ta['dest']['l']) for st in B['stmts']):
            continue
        src = tb['args'][0].get('move') or tb['args'][0].get('copy')
        if not src or src['p'] or src['l'] != ta['dest']['l']:
            continue
        A['stmts'] = list(A['stmts']) + list(B['stmts'])
        vec_ty = tb['dest']['ty']
        if not vec_ty.startswith('std::vec::Vec<'):
            continue
        fpl = ta['args'][0].get('move') or ta['args'][0].get('copy')
        if not fpl or fpl['p']:
            continue
        callee = None
        for blk in blocks:
            for st in blk['stmts']:
                if st['k'] == 'assign' and st['lhs']['l'] == fpl['l'] and not st['lhs']['p'] and st['rv']['k'] == 'agg' and st['rv']['kind'].get('agg') == 'closure':
                    callee = st['rv']['kind'].get('def')
        if not callee:
            continue
        elem_ty = _first_generic(vec_ty) or '?'
        opt_ty = 'std::option::Option<%s>' % elem_ty
        sp = tb.get('sp')
        base = len(locals_)
        locals_.extend([vec_ty, opt_ty, 'isize', '&mut ' + fpl['ty'], '&mut ' + vec_ty, '()'])
        Lv, Lr, Ld, Lc, Lref, Lunit = range(base, base + 6)
        target, dest = tb['t'], tb['dest']
        nb = len(blocks)
        H, S, PUSH, EXIT = range(nb, nb + 4)

        def call(f, args, dst, t, ga=''):
            return {'k': 'call', 'f': f, 'r': f, 'ga': ga, 'args': args, 'dest': dst, 't': t, 'sp': sp, 'exp': False}
        A['term'] = call('alloc::std::vec::Vec::<T>::new', [], _place(Lv, vec_ty), H, '[%s]' % elem_ty)
        blocks[bi] = {'cleanup': False, 'stmts': [], 'term': {'k': 'unreachable'}}
        blocks.append({'cleanup': False, 'stmts': [{'k': 'assign', 'lhs': _place(Lc, '&mut ' + fpl['ty']), 'rv': {'k': 'ref', 'mut': True, 'p': copy.deepcopy(fpl)}, 'sp': sp, 'exp': False}],
                       'term': call(callee, [{'move': _place(Lc, '&mut ' + fpl['ty'])}], _place(Lr, opt_ty), S)})
        blocks.append({'cleanup': False, 'stmts': [{'k': 'assign', 'lhs': _place(Ld, 'isize'), 'rv': {'k': 'discr', 'p': _place(Lr, opt_ty)}, 'sp': sp, 'exp': False}],
                       'term': {'k': 'switch', 'd': {'move': _place(Ld, 'isize')}, 't': [['0', EXIT], ['1', PUSH]], 'else': EXIT}})
        blocks.append({'cleanup': False, 'stmts': [{'k': 'assign', 'lhs': _place(Lref, '&mut ' + vec_ty), 'rv': {'k': 'ref', 'mut': True, 'p': _place(Lv, vec_ty)}, 'sp': sp, 'exp': False}],
                       'term': call('alloc::std::vec::Vec::<T, A>::push', [{'move': _place(Lref, '&mut ' + vec_ty)}, {'move': _place(Lr, elem_ty, [{'dc': 1, 'n': 'Some'}, {'f': 0}])}],
                                    _place(Lunit, '()'), H, '[%s, std::alloc::Global]' % elem_ty)})
        blocks.append({'cleanup': False, 'stmts': [{'k': 'assign', 'lhs': copy.deepcopy(dest), 'rv': {'k': 'use', 'o': {'move': _place(Lv, vec_ty)}}, 'sp': sp, 'exp': False}],
                       'term': {'k': 'goto', 't': target}})
        n += 1
    return n


def desugar_crate(bodies, prefixes=('unic_langid_impl::', 'unic_locale_impl::')):
    total = 0
    for name, b in bodies.items():
        if name.startswith(prefixes) and b.get('mir'):
            try:
                total += desugar_body(b['mir'])
            except Exception:
                pass
            try:
                total += desugar_from_fn(b['mir'])
            except Exception:
                pass
    return total
