"""Obligations, known findings, evidence and the output contract (DESIGN §2.3)."""
import json
import os
import sys
import time

VERIF = os.path.dirname(os.path.dirname(os.path.abspath(__file__)))
# evidence directory: /verif/evidence; tools/pmatrix.py redirects it when it analyses scratch copies in parallel
EVDIR = os.environ.get('VERIF_EVIDENCE_DIR') or os.path.join(VERIF, 'evidence')
KNOWN = os.path.join(VERIF, 'known_findings.json')


class Obligation:
    __slots__ = ('key', 'rule', 'site', 'fn', 'what', 'ok', 'detail', 'how', 'witness')

    def __init__(self, key, rule, fn, site, what, ok, detail='', how='', witness=None):
        self.key = key          # stable: property-independent, no line numbers
        self.rule = rule
        self.fn = fn
        self.site = site        # file:line (diagnostic only)
        self.what = what
        self.ok = ok
        self.detail = detail    # on failure: the offending construct / abstract state / path
        self.how = how          # on success: how it was discharged
        self.witness = witness  # optional concrete input class exhibiting the failure

    def to_json(self):
        return {'key': self.key, 'rule': self.rule, 'fn': self.fn, 'site': self.site, 'what': self.what,
                'status': 'discharged' if self.ok else 'violated', 'how': self.how, 'detail': self.detail,
                'witness': self.witness}


REPLAY = None     # --replay <file>: only the obligation named in the replay file is re-decided (on the current tree); evidence is left alone
SELFTEST = None   # thorough tier: {'seeds': n, 'reported': k, 'detail': {...}} - the stored seeded changes of this property re-applied to scratch copies (informational)
DEFERRED = None   # thorough tier: a list collecting the reports of the passes, merged by `merge_passes`


def merge_passes(reps, labels):
    """one report out of several passes of the same check over different configurations: an obligation holds iff it holds in every pass"""
    base = reps[0]
    for r, lab in zip(reps[1:], labels[1:]):
        for o in r.obls:
            if o.rule == 'FLOOR':
                o.key = o.key + '@' + lab
                o.what = o.what + ' [%s]' % lab
            elif not o.ok:
                o.detail = '[%s] %s' % (lab, o.detail)
            base.add(o)
        for k, v in r.analysed.items():
            base.analysed['%s [%s]' % (k, lab)] = v
        for a, b, c in r.floors:
            base.floors.append(('%s [%s]' % (a, lab), b, c))
        for n in r.notes:
            if n not in base.notes:
                base.notes.append(n)
    base.extra['passes'] = list(labels)
    return base


class Report:
    def __init__(self, prop, tier, level, checker_cmd):
        self.prop = prop
        self.tier = tier
        self.level = level
        self.checker_cmd = checker_cmd
        self.obls = []
        self.analysed = {}        # free-form counts: configs, bodies, call sites ...
        self.notes = []
        self.trusted = []
        self.assumptions = []
        self.explanation = ''
        self.extra = {}
        self.t0 = time.time()
        self.floors = []          # (name, measured, floor)

    def add(self, o):
        # the same obligation reported from several configurations is one obligation (it fails if any instance fails)
        for old in self.obls:
            if old.key == o.key:
                if old.ok and not o.ok:
                    old.ok, old.detail, old.witness, old.site = False, o.detail, o.witness, o.site
                return old
        self.obls.append(o)
        return o

    def ob(self, key, rule, fn, site, what, ok, detail='', how='', witness=None):
        return self.add(Obligation(key, rule, fn, site, what, bool(ok), detail, how, witness))

    def floor(self, name, measured, floor):
        """instance-count floor: a rule that matches fewer sites than were confirmed by hand fails closed"""
        self.floors.append((name, measured, floor))
        self.ob('floor:%s' % name, 'FLOOR', '-', '-', 'at least %d instances of %s analysed' % (floor, name), measured >= floor,
                detail='ANCHOR-MISSING: only %d instances of %s found (expected >= %d): the rule would pass vacuously' % (measured, name, floor),
                how='%d found' % measured)

    def count(self, name, n):
        self.analysed[name] = n

    # ------------------------------------------------------------------------------------------------------
    def finish(self):
        if DEFERRED is not None:
            DEFERRED.append(self)
            return 0
        if REPLAY is not None:
            return self.finish_replay()
        known = load_known()
        kf = {(f['property'], f['key']): f for f in known.get('findings', [])}
        viol = [o for o in self.obls if not o.ok]
        new, listed = [], []
        for o in viol:
            (listed if (self.prop, o.key) in kf else new).append(o)
        wall = time.time() - self.t0
        print('== %s (%s tier) ==' % (self.prop, self.tier))
        for k, v in self.analysed.items():
            print('  analysed %-32s %s' % (k, v))
        byrule = {}
        for o in self.obls:
            d = byrule.setdefault(o.rule, [0, 0])
            d[0] += 1
            d[1] += 1 if o.ok else 0
        for r, (n, d) in sorted(byrule.items()):
            print('  rule %-28s obligations %4d  discharged %4d' % (r, n, d))
        for o in listed:
            print('KNOWN-FINDING: property=%s %s [%s] %s' % (self.prop, kf[(self.prop, o.key)].get('what', o.what), o.key, (o.witness or '')))
        os.makedirs(os.path.join(EVDIR, 'replay'), exist_ok=True)
        replay_paths = []
        import glob
        for old in glob.glob(os.path.join(EVDIR, 'replay', '%s-*.json' % self.prop)):
            os.remove(old)          # replay files describe the current run only
        for o in new:
            print('  VIOLATED %s  %s  fn %s  rule %s' % (o.site, o.what, o.fn, o.rule))
            for line in str(o.detail).splitlines()[:12]:
                print('      ' + line)
            if o.witness:
                print('      witness: %s' % o.witness)
            rp = os.path.join(EVDIR, 'replay', '%s-%s.json' % (self.prop, safe(o.key)))
            with open(rp, 'w') as f:
                json.dump({'property': self.prop, 'obligation': o.to_json(), 'tier': self.tier}, f, indent=1)
            replay_paths.append(rp)
        for n in self.notes:
            print('  note: ' + n)
        self.write_evidence(wall, len(new), listed)
        if new:
            for rp in replay_paths[:1] if len(replay_paths) == 1 else replay_paths:
                print('VIOLATION property=%s replay=%s' % (self.prop, rp))
            return 1
        print('%s: %d obligations, %d discharged, %d known findings, %.1fs' % (self.prop, len(self.obls), len(self.obls) - len(viol), len(listed), wall))
        return 0

    def finish_replay(self):
        want = REPLAY['obligation']['key']
        hit = [o for o in self.obls if o.key == want]
        print('== %s replay of obligation %s (rule %s) on the current tree ==' % (self.prop, want, REPLAY['obligation'].get('rule')))
        print('  recorded: %s' % REPLAY['obligation'].get('what'))
        for line in str(REPLAY['obligation'].get('detail', '')).splitlines()[:6]:
            print('      ' + line)
        if not hit:
            print('  not reproduced: the current tree generates no obligation with this key (failure-only obligation, or the code it named is gone;')
            print('  the full check decides whether an anchor is missing)')
            return 0
        o = hit[0]
        if o.ok:
            print('  now: discharged (%s)' % o.how)
            return 0
        known = load_known()
        if any(f['property'] == self.prop and f['key'] == o.key for f in known.get('findings', [])):
            print('KNOWN-FINDING: property=%s [%s]' % (self.prop, o.key))
            return 0
        print('  now: VIOLATED %s  %s  fn %s' % (o.site, o.what, o.fn))
        for line in str(o.detail).splitlines()[:12]:
            print('      ' + line)
        if o.witness:
            print('      witness: %s' % o.witness)
        print('VIOLATION property=%s replay=%s' % (self.prop, REPLAY['path']))
        return 1

    def write_evidence(self, wall, nviol, listed):
        n = len(self.obls)
        d = len([o for o in self.obls if o.ok])
        samples = []
        seen_rules = set()
        for o in self.obls:
            if o.rule not in seen_rules or not o.ok:
                seen_rules.add(o.rule)
                samples.append(o.to_json())
        for o in self.obls:
            if len(samples) >= 40:
                break
            j = o.to_json()
            if j not in samples:
                samples.append(j)
        cov = {
            'obligations': n,
            'discharged': d,
            'checker_cmd': self.checker_cmd,
            'trusted_base': self.trusted,
            'samples': samples[:60],
            'explanation': self.explanation,
            'analysed': self.analysed,
            'rules': sorted(set(o.rule for o in self.obls)),
            'known_findings_reported': [o.key for o in listed],
            'floors': [{'name': a, 'measured': b, 'floor': c} for a, b, c in self.floors],
            'exhaustive': False,
        }
        cov.update(self.extra)
        if SELFTEST is not None:
            cov['selftest_seeded_changes'] = SELFTEST
        ev = {
            'property_id': self.prop,
            'tier': self.tier,
            'seed': int(os.environ.get('VERIF_SEED', '0') or 0),
            'level': self.level,
            'coverage': cov,
            'assumptions': self.assumptions,
            'wall_s': round(wall, 2),
            'violations': nviol,
        }
        os.makedirs(os.path.join(EVDIR), exist_ok=True)
        with open(os.path.join(EVDIR, '%s.json' % self.prop), 'w') as f:
            json.dump(ev, f, indent=1, default=str)


def safe(s):
    return ''.join(c if c.isalnum() or c in '-_.' else '_' for c in s)[:150]


def load_known():
    if os.path.exists(KNOWN):
        with open(KNOWN) as f:
            return json.load(f)
    return {'findings': [], 'fixed': []}
