"""SUM — semantics of external (std / tinystr) functions for PX (DESIGN §3.3): the trusted summaries.

Each model returns a list of (state, return value), or None when the callee is not modelled here.
Predicates are returned as lazy boolean terms and decided (with exact Shape refinement) at the branch that tests them.
"""
import re
from . import shape as sh
from .shape import Shape
from .px import INT, TRUE, FALSE, UNIT, POS_NAMES, NEG_NAMES

# external functions that never write through their reference arguments (no havoc needed)
PURE_RE = re.compile(r'''(
    ::len$|::is_empty$|::contains$|::first$|::last$|::get$|::iter$|::keys$|::values$|::as_str$|::as_bytes$|::as_ref$|::as_deref$|
    ::deref$|::borrow$|::eq$|::ne$|::cmp$|::partial_cmp$|::lt$|::le$|::gt$|::ge$|::hash$|::clone$|::to_vec$|::to_string$|::to_owned$|
    ::binary_search$|::binary_search_by_key$|::binary_search_by$|::is_some$|::is_none$|::is_ok$|::is_err$|::all_bytes$|
    ::is_ascii_\w+$|::to_ascii_\w+$|::from_le_bytes$|::to_le_bytes$|::from_be_bytes$|::to_be_bytes$|::from_ne_bytes$|::to_ne_bytes$|
    ::from_bytes$|::from_bytes_unchecked$|::from_str$|::parse$|::split$|::peekable$|::map$|::filter_map$|::filter$|::copied$|::cloned$|
    ::into_iter$|::new_display$|::new_debug$|Arguments::<'a>::new$|Arguments::<'a>::from_str$|::default$|::new$|::from$|::into$|
    ::starts_with$|::ends_with$|::eq_ignore_ascii_case$|::chars$|::bytes$|::rev$|::enumerate$|::zip$|::skip$|::take$|::chain$|
    ::as_slice$|::as_mut_slice$|::into_boxed_slice$|::into_vec$|::unwrap_or$|::with_capacity$|::count$|::position$|::find$|::flat_map$|iter::once$|sources::once::once$|
    ::min$|::max$|::try_from$|::try_into$|::len_utf8$|::is_char_boundary$|::partition_point$
)''', re.X)

# externals whose first argument is written (typestate clients read the events; PX havocs the pointee value)
MUTATOR_RE = re.compile(r'''(
    ::push$|::insert$|::remove$|::clear$|::sort$|::sort_unstable$|::sort_by$|::sort_by_key$|::sort_unstable_by$|::sort_unstable_by_key$|
    ::dedup$|::dedup_by$|::dedup_by_key$|::retain$|::truncate$|::pop$|::extend$|::extend_from_slice$|::append$|::drain$|::swap_remove$|
    ::split_off$|::deref_mut$|::reverse$|::swap$|::resize$|::entry$|::push_str$|::take$|::replace$|::get_mut$|::iter_mut$|::last_mut$|::first_mut$
)''', re.X)

FMT_RE = re.compile(r'(Formatter::<\'a>::write_str$|Formatter<\'_> as std::fmt::Write>::write_char$|Formatter::<\'a>::write_fmt$|'
                    r'Formatter::<\'a>::debug_\w+$|Formatter::<\'a>::pad$|::fmt$|Write::write_str$|Write::write_char$|Write::write_fmt$)')


def ga_list(t):
    s = t.get('ga', '').strip()
    if s.startswith('[') and s.endswith(']'):
        s = s[1:-1]
    out, depth, cur = [], 0, ''
    for ch in s:
        if ch in '<([':
            depth += 1
        elif ch in '>)]':
            depth -= 1
        if ch == ',' and depth == 0:
            out.append(cur.strip())
            cur = ''
        else:
            cur += ch
    if cur.strip():
        out.append(cur.strip())
    return out


def tiny_n(t):
    for g in ga_list(t):
        m = re.match(r'^(\d+)(_usize)?$', g)
        if m:
            return int(m.group(1))
    return None


def pure(name, args):
    return ('pure', name, tuple(args))


def eqterm(a, b):
    # `x.cmp(&y) == Ordering::Equal` is `x == y` (Eq and Ord agree for derived impls and std types)
    for x, y in ((a, b), (b, a)):
        if isinstance(y, tuple) and y and y[0] == 'adt' and str(y[1]).endswith('cmp::Ordering') and y[2] == 'Equal' \
                and isinstance(x, tuple) and x and x[0] == 'pure' and re.search(r'(^|::)cmp$', str(x[1])) and len(x[2]) == 2:
            def strip(t):
                for _ in range(4):
                    if t[0] == 'cref':
                        t = t[1]
                    else:
                        break
                return t
            return eqterm(strip(x[2][0]), strip(x[2][1]))
    return ('pure', 'eq', tuple(sorted((a, b), key=repr)))


# ---------------------------------------------------------------------------------------------------------------
def call(px, st, name, t, args, fid, fn):
    n = name
    # ---- identity-like pointer conversions
    if n.endswith('str::<impl str>::as_bytes') or n.endswith('<str as std::convert::AsRef<str>>::as_ref') \
            or n.endswith('<[T] as std::convert::AsRef<[T]>>::as_ref') or n.endswith('<str as std::convert::AsRef<[u8]>>::as_ref'):
        return [(st, args[0])]
    if n.endswith('<I as std::iter::IntoIterator>::into_iter'):
        return [(st, args[0])]
    if n.endswith('std::convert::AsRef::as_ref') and len(args) == 1:
        gas = ga_list(t)
        selfty = re.sub(r"'[a-z_{}]+ ", '', gas[0]) if gas else ''
        if selfty in ('[u8]', 'str'):
            return [(st, args[0])]                       # <[u8] as AsRef<[u8]>>::as_ref(&self) -> the same slice
        if selfty in ('&[u8]', '&str', '&&[u8]', '&&str'):
            return [(st, px.deref_value(st, args[0]))]   # blanket impl for references: as_ref(&&[u8]) -> &[u8]
        if len(gas) > 1 and gas[1] in ('[u8]', 'str') and re.match(r'^[A-Z]\w*(/#\d+)?$', selfty or ''):
            # inside a generic function explored inline the receiver type is a type parameter, but the VALUE is known: when it is a reference to a byte
            # string (a token of the iterator, a sub-slice, a literal), `as_ref` is the blanket impl for references and yields that same string
            try:
                inner = px.deref_value(st, args[0])
            except Exception:
                inner = None
            if inner is not None and inner[0] == 'ref' and inner[1][0] in ('T', 'S', 'STR', 'MEM', 'PK'):
                return [(st, inner)]
    if n.endswith('std::convert::AsRef::as_ref') or n.endswith('std::borrow::Borrow::borrow'):
        return [(st, pure(n.split('::')[-1], px.snap_args(st, args)))]
    if n.endswith('as std::ops::Deref>::deref'):
        return [(st, pure('deref', args))]
    if n.endswith('as std::ops::DerefMut>::deref_mut') and ('vec::Vec<' in n or 'boxed::Box<' in n):
        # &mut Vec<T> -> &mut [T]: the same place (so that a following sort/dedup is attributed to the vector)
        return [(st, args[0])]
    if n.endswith('as std::clone::Clone>::clone') or n.endswith('::clone::Clone::clone'):
        v = px.deref_value(st, args[0])
        return [(st, v)]
    if n.endswith('as std::default::Default>::default'):
        if 'option::Option<T>' in n:
            return [(st, ('adt', 'core::std::option::Option', 'None', ()))]
        return [(st, pure('default', (('ty', name),)))]
    if n.endswith('Vec::<T>::new'):
        return [(st, pure('Vec::new', ()))]
    if n.endswith('hint::must_use') and len(args) == 1:
        return [(st, args[0])]          # identity (lint helper inside format!)
    if re.search(r'(^|::)fmt::format$', n) and len(args) == 1:
        return [(st, pure(n, px.snap_args(st, args)))]

    # ---- Try / residuals
    if n.endswith('as std::ops::Try>::branch'):
        return [(st, ('cf', args[0]))]
    if 'as std::ops::FromResidual<' in n and n.endswith('::from_residual'):
        if '<std::option::Option<T> as' in n:
            return [(st, ('adt', 'core::std::option::Option', 'None', ()))]
        e = px.neg_payload(st, args[0])
        outs = []
        for s2, ev in resolve_err(px, st, e):
            conv = convert_err(px, s2, ev, t, fid)
            outs.extend((s3, ('adt', 'core::std::result::Result', 'Err', (cv,))) for s3, cv in conv)
        return outs
    if n.endswith('result::Result::<T, E>::map_err'):
        r = args[0]
        if r[0] == 'adt' and r[2] == 'Ok':
            return [(st, r)]
        if r[0] == 'adt' and r[2] == 'Err':
            return [(s2, rv if rv == ('PANIC',) else ('adt', r[1], 'Err', (rv,))) for s2, rv in px.call_closure(st, args[1], [r[3][0]])]
        return [(st, ('map_err', r, args[1]))]
    if n.endswith('result::Result::<T, E>::ok'):
        return [(st, ('ok', args[0]))]
    if n.endswith('result::Result::<T, E>::is_ok') or n.endswith('option::Option::<T>::is_some'):
        return [(st, ('pred', 'tag', px.deref_value(st, args[0]), 'pos'))]
    if n.endswith('result::Result::<T, E>::is_err') or n.endswith('option::Option::<T>::is_none'):
        return [(st, ('pred', 'tag', px.deref_value(st, args[0]), 'neg'))]
    if n.endswith('option::Option::<T>::as_ref') or n.endswith('option::Option::<T>::as_deref') or n.endswith('option::Option::<T>::as_mut'):
        a = args[0]
        if a[0] == 'ref':
            return [(st, ('optref', a[1]))]
        return [(st, ('optref', px.canon(st, ('P', a))))]
    if n.endswith('result::Result::<T, E>::map'):
        outs = []
        for tag, s2 in px.decide_tag(st, args[0]):
            if tag == 'neg':
                outs.append((s2, ('adt', 'core::std::result::Result', 'Err', (px.neg_payload(s2, args[0]),))))
            else:
                for s3, rv in px.call_closure(s2, args[1], [px.pos_payload(s2, args[0])]):
                    outs.append((s3, rv if rv == ('PANIC',) else ('adt', 'core::std::result::Result', 'Ok', (rv,))))
        return outs
    if n.endswith('bool::<impl bool>::then_some') or n.endswith('bool::<impl bool>::then'):
        outs = []
        for b, s2 in px.decide_bool(st, args[0]):
            if not b:
                outs.append((s2, ('adt', 'core::std::option::Option', 'None', ())))
            elif n.endswith('then_some'):
                outs.append((s2, ('adt', 'core::std::option::Option', 'Some', (args[1],))))
            else:
                for s3, rv in px.call_closure(s2, args[1], []):
                    outs.append((s3, rv if rv == ('PANIC',) else ('adt', 'core::std::option::Option', 'Some', (rv,))))
        return outs
    if n.endswith('option::Option::<T>::filter'):
        outs = []
        for tag, s2 in px.decide_tag(st, args[0]):
            if tag == 'neg':
                outs.append((s2, ('adt', 'core::std::option::Option', 'None', ())))
                continue
            pay = px.pos_payload(s2, args[0])
            for s3, rv in px.call_closure(s2, args[1], [('cref', pay)]):
                if rv == ('PANIC',):
                    outs.append((s3, rv))
                    continue
                for b, s4 in px.decide_bool(s3, rv):
                    outs.append((s4, ('adt', 'core::std::option::Option', 'Some', (pay,)) if b else ('adt', 'core::std::option::Option', 'None', ())))
        return outs
    if n.endswith('option::Option::<T>::is_some_and') or n.endswith('result::Result::<T, E>::is_ok_and'):
        outs = []
        for tag, s2 in px.decide_tag(st, args[0]):
            if tag == 'neg':
                outs.append((s2, FALSE))
            else:
                outs.extend(px.call_closure(s2, args[1], [px.pos_payload(s2, args[0])]))
        return outs
    if n.endswith('option::Option::<T>::is_none_or'):
        outs = []
        for tag, s2 in px.decide_tag(st, args[0]):
            if tag == 'neg':
                outs.append((s2, TRUE))
            else:
                outs.extend(px.call_closure(s2, args[1], [px.pos_payload(s2, args[0])]))
        return outs
    if n.endswith('option::Option::<T>::ok_or_else'):
        outs = []
        for tag, s2 in px.decide_tag(st, args[0]):
            if tag == 'pos':
                outs.append((s2, ('adt', 'core::std::result::Result', 'Ok', (px.pos_payload(s2, args[0]),))))
            else:
                for s3, rv in px.call_closure(s2, args[1], []):
                    outs.append((s3, rv if rv == ('PANIC',) else ('adt', 'core::std::result::Result', 'Err', (rv,))))
        return outs
    if n.endswith('option::Option::<T>::replace') or n.endswith('option::Option::<T>::take') or n.endswith('option::Option::<T>::insert') or re.search(r'mem::(replace|take)$', n):
        a = args[0]
        if a[0] == 'ref':
            pl = a[1]
            old = px.read(st, pl)
            last = n.split('::')[-1]
            if 'option::Option' in n:
                new = ('adt', 'core::std::option::Option', 'None', ()) if last == 'take' else ('adt', 'core::std::option::Option', 'Some', (args[1],))
            else:
                new = args[1] if last == 'replace' else pure('default', (('ty', t.get('dest', {}).get('ty', '')),))
            px.write(st, pl, new, t.get('sp'))
            if last == 'insert' and 'option::Option' in n:
                return [(st, px.mkref(px.canon(st, ('F', ('D', pl, 'Some'), 0))))]
            return [(st, old)]
    if n.endswith('option::Option::<T>::map'):
        outs = []
        for tag, s2 in px.decide_tag(st, args[0]):
            if tag == 'neg':
                outs.append((s2, ('adt', 'core::std::option::Option', 'None', ())))
            else:
                for s3, rv in px.call_closure(s2, args[1], [px.pos_payload(s2, args[0])]):
                    outs.append((s3, rv if rv == ('PANIC',) else ('adt', 'core::std::option::Option', 'Some', (rv,))))
        return outs
    if n.endswith('option::Option::<T>::and_then') or n.endswith('result::Result::<T, E>::and_then'):
        outs = []
        for tag, s2 in px.decide_tag(st, args[0]):
            if tag == 'neg':
                if 'option::Option' in n:
                    outs.append((s2, ('adt', 'core::std::option::Option', 'None', ())))
                else:
                    outs.append((s2, ('adt', 'core::std::result::Result', 'Err', (px.neg_payload(s2, args[0]),))))
            else:
                outs.extend(px.call_closure(s2, args[1], [px.pos_payload(s2, args[0])]))
        return outs
    if n.endswith('option::Option::<T>::unwrap_or_else') or n.endswith('result::Result::<T, E>::unwrap_or_else'):
        outs = []
        for tag, s2 in px.decide_tag(st, args[0]):
            if tag == 'pos':
                outs.append((s2, px.pos_payload(s2, args[0])))
            else:
                outs.extend(px.call_closure(s2, args[1], [] if 'option::Option' in n else [px.neg_payload(s2, args[0])]))
        return outs
    if n.endswith('option::Option::<T>::ok_or'):
        outs = []
        for tag, s2 in px.decide_tag(st, args[0]):
            if tag == 'pos':
                outs.append((s2, ('adt', 'core::std::result::Result', 'Ok', (px.pos_payload(s2, args[0]),))))
            else:
                outs.append((s2, ('adt', 'core::std::result::Result', 'Err', (args[1],))))
        return outs
    if n.endswith('option::Option::<T>::or_else'):
        outs = []
        for tag, s2 in px.decide_tag(st, args[0]):
            if tag == 'pos':
                outs.append((s2, ('adt', 'core::std::option::Option', 'Some', (px.pos_payload(s2, args[0]),))))
            else:
                outs.extend(px.call_closure(s2, args[1], []))
        return outs
    if re.search(r'array::<impl std::convert::TryFrom<&(mut )?\[T\]> for \[T; N\]>::try_from$', n) or re.search(r'array::<impl std::convert::TryFrom<&\[T\]> for &\[T; N\]>::try_from$', n):
        m = re.search(r'\[[^;\]]+; (\d+)(_usize)?\]', t.get('ga', ''))
        if m:
            return [(st, ('arrres', px.subject_of(st, args[0]), int(m.group(1))))]
    if n.endswith('result::Result::<T, E>::or'):
        outs = []
        for tag, s2 in px.decide_tag(st, args[0]):
            outs.append((s2, ('adt', 'core::std::result::Result', 'Ok', (px.pos_payload(s2, args[0]),)) if tag == 'pos' else args[1]))
        return outs
    if n.endswith('option::Option::<T>::or'):
        outs = []
        for tag, s2 in px.decide_tag(st, args[0]):
            outs.append((s2, ('adt', 'core::std::option::Option', 'Some', (px.pos_payload(s2, args[0]),)) if tag == 'pos' else args[1]))
        return outs
    if n.endswith('option::Option::<T>::map_or'):
        outs = []
        for tag, s2 in px.decide_tag(st, args[0]):
            if tag == 'neg':
                outs.append((s2, args[1]))
            else:
                outs.extend(px.call_closure(s2, args[2], [px.pos_payload(s2, args[0])]))
        return outs
    if n.endswith('option::Option::<T>::map_or_else'):
        outs = []
        for tag, s2 in px.decide_tag(st, args[0]):
            if tag == 'neg':
                outs.extend(px.call_closure(s2, args[1], []))
            else:
                outs.extend(px.call_closure(s2, args[2], [px.pos_payload(s2, args[0])]))
        return outs
    if n.endswith('option::Option::<T>::unwrap_or') or n.endswith('result::Result::<T, E>::unwrap_or'):
        outs = []
        for tag, s2 in px.decide_tag(st, args[0]):
            outs.append((s2, px.pos_payload(s2, args[0]) if tag == 'pos' else args[1]))
        return outs
    if n.endswith('option::Option::<T>::unwrap_or_default') or n.endswith('result::Result::<T, E>::unwrap_or_default'):
        outs = []
        dty = str(t['dest']['ty'])
        # <&[T] as Default>::default() and <&str as Default>::default() are the empty constant slice / string
        dflt = ('cref', ('array', ())) if re.match(r"^&('\w+ )?\[[^;\]]*\]$", dty) else pure('default', (('ty', t['dest']['ty']),))
        for tag, s2 in px.decide_tag(st, args[0]):
            outs.append((s2, px.pos_payload(s2, args[0]) if tag == 'pos' else dflt))
        return outs
    if re.search(r'(option::Option::<T>|result::Result::<T, E>)::(unwrap|expect)$', n):
        outs = []
        for tag, s2 in px.decide_tag(st, args[0]):
            if tag == 'pos':
                outs.append((s2, px.pos_payload(s2, args[0])))
            else:
                s2.events.append(('panic', 'unwrap', n, t['sp'], fn, px.cur_site[1]))
                outs.append((s2, ('PANIC',)))
        return outs
    if n.endswith('::transpose') and 'result::Result::<std::option::Option<T>, E>' in n:
        outs = []
        r = args[0]
        for tag, s2 in px.decide_tag(st, r):
            if tag == 'neg':
                outs.append((s2, ('adt', 'core::std::option::Option', 'Some', (('adt', 'core::std::result::Result', 'Err', (px.neg_payload(s2, r),)),))))
            else:
                inner = px.pos_payload(s2, r)
                for tag2, s3 in px.decide_tag(s2, inner):
                    if tag2 == 'neg':
                        outs.append((s3, ('adt', 'core::std::option::Option', 'None', ())))
                    else:
                        outs.append((s3, ('adt', 'core::std::option::Option', 'Some', (('adt', 'core::std::result::Result', 'Ok', (px.pos_payload(s3, inner),)),))))
        return outs

    if n.endswith('::transpose') and 'option::Option::<std::result::Result<T, E>>' in n:
        # Some(Ok(x)) -> Ok(Some(x)); Some(Err(e)) -> Err(e); None -> Ok(None)
        outs = []
        o = args[0]
        for tag, s2 in px.decide_tag(st, o):
            if tag == 'neg':
                outs.append((s2, ('adt', 'core::std::result::Result', 'Ok', (('adt', 'core::std::option::Option', 'None', ()),))))
            else:
                inner = px.pos_payload(s2, o)
                for tag2, s3 in px.decide_tag(s2, inner):
                    if tag2 == 'neg':
                        outs.append((s3, ('adt', 'core::std::result::Result', 'Err', (px.neg_payload(s3, inner),))))
                    else:
                        outs.append((s3, ('adt', 'core::std::result::Result', 'Ok', (('adt', 'core::std::option::Option', 'Some', (px.pos_payload(s3, inner),)),))))
        return outs

    # ---- panics
    if n.startswith('core::panicking::') or n.endswith('::begin_panic') or 'panicking::panic' in n or n.endswith('option::unwrap_failed') \
            or n.endswith('result::unwrap_failed') or n.endswith('option::expect_failed') or 'slice::index::slice_' in n and n.endswith('_fail'):
        st.events.append(('panic', 'explicit', n, t['sp'], fn, px.cur_site[1]))
        return [(st, ('PANIC',))]

    # ---- slices as subjects
    if n.endswith('slice::<impl [T]>::len') or n.endswith('str::<impl str>::len'):
        return [(st, ('len', px.subject_of(st, args[0])))]
    if n.endswith('slice::<impl [T]>::is_empty') or n.endswith('str::<impl str>::is_empty'):
        return [(st, ('bin', 'Eq', ('len', px.subject_of(st, args[0])), INT(0)))]
    if n.endswith('slice::<impl [T]>::first'):
        return [(st, ('getres', px.subject_of(st, args[0]), 0))]
    if n.endswith('slice::<impl [T]>::last'):
        # the last element: position len-1 when the path knows the length
        subj = px.subject_of(st, args[0])
        shp = st.shapes.get(subj)
        ls = shp.lengths() if shp is not None else None
        if ls is not None and len(ls) == 1 and sh.LONG not in ls:
            k = next(iter(ls))
            if k == 0:
                return [(st, ('adt', 'core::std::option::Option', 'None', ()))]
            return [(st, ('getres', subj, k - 1))]
    if n.endswith('slice::<impl [T]>::split_first'):
        # Some((&v[0], &v[1..])) iff the slice is not empty
        subj = px.subject_of(st, args[0])
        base, lo = (subj[1], subj[2]) if subj[0] == 'S' and subj[3] is None else (subj, 0)
        outs = []
        for b, s2 in px.decide_bool(st, ('bin', 'Ge', ('len', subj), INT(1))):
            if b:
                outs.append((s2, ('adt', 'core::std::option::Option', 'Some', (('tuple', (px.mkref(('I', base, INT(lo))), px.mkref(('S', base, lo + 1, None, False)))),))))
            else:
                outs.append((s2, ('adt', 'core::std::option::Option', 'None', ())))
        return outs
    if n.endswith('slice::<impl [T]>::get') and args[1][0] == 'int':
        return [(st, ('getres', px.subject_of(st, args[0]), args[1][1]))]
    if re.search(r'impl std::ops::Index<I> for \[T; N\]>::index$|impl std::ops::Index<I> for \[T\]>::index$', n) and len(args) == 2 \
            and args[1][0] == 'adt' and args[1][1].endswith('RangeFull'):
        return [(st, args[0])]                 # x[..]: the whole array / slice
    if n.endswith('impl std::ops::Index<I> for [T]>::index') or n.endswith('impl std::ops::Index<I> for str>::index'):
        subj = px.subject_of(st, args[0])
        r = args[1]
        if r[0] == 'adt' and r[1].endswith('RangeFrom') and r[3][0][0] == 'int':
            lo = r[3][0][1]
            outs = []
            for b, s2 in px.decide_bool(st, ('bin', 'Ge', ('len', subj), INT(lo))):
                if b:
                    outs.append((s2, px.mkref(('S', subj, lo, None, False))))
                else:
                    s2.events.append(('panic', 'index', n, t['sp'], fn, px.cur_site[1]))
                    outs.append((s2, ('PANIC',)))
            return outs
        if r[0] == 'int':
            outs = []
            for b, s2 in px.decide_bool(st, ('bin', 'Gt', ('len', subj), r)):
                if b:
                    outs.append((s2, px.mkref(('I', subj, r))))
                else:
                    s2.events.append(('panic', 'index', n, t['sp'], fn, px.cur_site[1]))
                    outs.append((s2, ('PANIC',)))
            return outs
        st.events.append(('panic', 'index?', n, t['sp'], fn, px.cur_site[1]))
        return [(st, ('call', n, tuple(args), st.uid())), (st.copy(), ('PANIC',))]
    if n.endswith('slice::<impl [T]>::iter'):
        return [(st, ('sliceiter', px.subject_of(st, args[0])))]
    if re.search(r'as std::iter::Iterator>::(any|all)$', n) or re.search(r'iter::Iterator::(any|all)$', n):
        itv = px.deref_value(st, args[0])
        if itv[0] == 'sliceiter':
            subj = itv[1]
            k = byte_closure(px, st, args[1])
            if k is not None:
                lo = 0
                if subj[0] == 'S':
                    lo = subj[2]
                    subj = subj[1]
                kind = 'any' if n.endswith('any') else 'all'
                return [(st, ('pred', kind, subj, lo, k))]
        px.unmodelled[n + ' (iterator/closure shape)'] = px.unmodelled.get(n + ' (iterator/closure shape)', 0) + 1
        return [(st, ('call', n, tuple(args), st.uid()))]
    if n.endswith('ops::RangeInclusive::<Idx>::contains'):
        rng = px.deref_value(st, args[0])
        x = px.deref_value(st, args[1])
        lohi = range_bounds(rng)
        if lohi:
            return [(st, ('pred', 'inrange', lohi[0], lohi[1], x))]
        return [(st, pure('range_contains', (rng, x)))]
    m = re.search(r'ops::RangeInclusive::<Idx>::(start|end)$', n)
    if m:
        lohi = range_bounds(px.deref_value(st, args[0]))
        if lohi:
            return [(st, ('cref', INT(lohi[0] if m.group(1) == 'start' else lohi[1])))]
    if n.endswith('ops::Range::<Idx>::contains'):
        rng = px.deref_value(st, args[0])
        x = px.deref_value(st, args[1])
        if rng[0] == 'adt' and all(f[0] == 'int' for f in rng[3]):
            return [(st, ('pred', 'inrange', rng[3][0][1], rng[3][1][1] - 1, x))]
        return [(st, pure('range_contains', (rng, x)))]

    if re.search(r'vec::Vec::<T, A>::(is_empty|len)$', n):
        # a vector copied from a constant array / slice literal has that length (`set_variants(&[])`)
        v = px.deref_value(st, args[0])
        if v[0] == 'pure' and v[1].split('::')[-1] in ('to_vec', 'to_owned', 'into_vec') and len(v[2]) == 1:
            src = v[2][0]
            for _ in range(4):
                if src[0] in ('ref', 'cref'):
                    try:
                        src = px.deref_value(st, src)
                    except Exception:
                        break
            k = len(src[1]) if src[0] == 'array' else None
            if k is not None:
                return [(st, INT(k) if n.endswith('::len') else INT(1 if k == 0 else 0))]

    # ---- tinystr
    if n.endswith('TinyAsciiStr::<N>::from_bytes') or n.endswith('TinyAsciiStr::<N>::from_str') or n.endswith('TinyAsciiStr<N> as std::str::FromStr>::from_str'):
        N = tiny_n(t)
        if N is None:
            m = re.search(r'TinyAsciiStr<(\d+)>', t['dest']['ty'])
            N = int(m.group(1)) if m else None
        if N is None:
            # called inside a const-generic helper explored inline (`fn tiny_or<const N: usize>(..)`): N is the integer generic argument of that call
            for ga in reversed(getattr(px, 'ga_stack', [])):
                ints = re.findall(r'(?<![\w<])(\d+)_usize', ga)
                if len(ints) == 1:
                    N = int(ints[0])
                    break
        if N is not None:
            return [(st, ('tinyres', px.subject_of(st, args[0]), N))]
    if n.endswith('TinyAsciiStr::<N>::len') or n.endswith('TinyAsciiStr::<N>::is_empty'):
        # a TinyAsciiStr built from a byte string holds exactly its bytes (no NUL, at most N): its length is the input's
        tv = px.deref_value(st, args[0])
        if tv[0] == 'tiny':
            ln = ('len', tv[1])
            return [(st, ln if n.endswith('::len') else ('bin', 'Eq', ln, INT(0)))]
    m = re.search(r'TinyAsciiStr::<N>::is_ascii_(alphabetic|alphanumeric|numeric)$', n)
    if m:
        tv = px.deref_value(st, args[0])
        K = {'alphabetic': sh.ALPHA, 'alphanumeric': sh.ALNUM, 'numeric': sh.DIGIT}[m.group(1)]
        if tv[0] == 'tiny':
            return [(st, ('pred', 'allx', tv[1], tv[2], K))]
        return [(st, pure(n.split('::')[-1], (tv,)))]
    m = re.search(r'TinyAsciiStr::<N>::to_ascii_(lowercase|uppercase|titlecase)$', n)
    if m:
        kind = {'lowercase': 'lower', 'uppercase': 'upper', 'titlecase': 'title'}[m.group(1)]
        tv = args[0]
        if tv[0] == 'tiny':
            return [(st, ('tiny', tv[1], tv[2] + (kind,)))]
        return [(st, ('xform', kind, tv))]
    m = re.search(r'TinyAsciiStr<N> as std::cmp::PartialEq(<&str>|<str>)?>::(eq|ne)$', n)
    if m:
        a = px.deref_value(st, args[0])
        b = px.deref_value(st, args[1])
        neg = (lambda x: ('un', 'Not', x)) if m.group(2) == 'ne' else (lambda x: x)
        lit = literal_of(px, st, b)
        if a[0] == 'tiny' and lit is not None:
            return [(st, neg(('pred', 'eqlit', a[1], a[2], lit)))]
        lit = literal_of(px, st, a)
        if b[0] == 'tiny' and lit is not None:
            return [(st, neg(('pred', 'eqlit', b[1], b[2], lit)))]
        return [(st, neg(eqterm(a, b)))]

    # ---- u8
    m = re.search(r'num::<impl u8>::is_ascii_(alphabetic|alphanumeric|digit|uppercase|lowercase|punctuation|whitespace|hexdigit|graphic|control)$', n)
    if m:
        bv = px.deref_value(st, args[0])
        K = {'alphabetic': sh.ALPHA, 'alphanumeric': sh.ALNUM, 'digit': sh.DIGIT, 'uppercase': sh.UPPER, 'lowercase': sh.LOWER,
             'hexdigit': sh.DIGIT | sh.mask(lambda b: 0x41 <= b <= 0x46 or 0x61 <= b <= 0x66),
             'punctuation': sh.mask(lambda b: 0x21 <= b <= 0x2F or 0x3A <= b <= 0x40 or 0x5B <= b <= 0x60 or 0x7B <= b <= 0x7E),
             'whitespace': sh.mask_of([0x20, 0x09, 0x0A, 0x0C, 0x0D]), 'graphic': sh.mask(lambda b: 0x21 <= b <= 0x7E),
             'control': sh.mask(lambda b: b <= 0x1F or b == 0x7F)}[m.group(1)]
        if bv[0] == 'byte':
            return [(st, ('pred', 'bytein', bv, K))]
        return [(st, pure(n.split('::')[-1], (bv,)))]
    m = re.search(r'num::<impl u8>::to_ascii_(lowercase|uppercase)$', n)
    if m:
        bv = px.deref_value(st, args[0])
        if bv[0] == 'byte':
            return [(st, ('byte', bv[1], bv[2], bv[3] + ({'lowercase': 'lower', 'uppercase': 'upper'}[m.group(1)],)))]
        return [(st, pure(n.split('::')[-1], (bv,)))]
    if n.endswith('num::<impl u8>::is_ascii'):
        bv = px.deref_value(st, args[0])
        if bv[0] == 'byte':
            return [(st, ('pred', 'bytein', bv, sh.ASCII))]

    # ---- iterators over tokens / elements
    if n.endswith('iter::Peekable::<I>::peek'):
        it = iter_id(px, st, args[0])
        cur = st.iters.setdefault(it, {'k': ('e', st.uid(), 0)})
        st.events.append(('peek', it, cur['k'], t['sp']))
        return [(st, ('peekres', it, cur['k']))]
    if re.search(r'iter::Peekable::<I>::next_if$', n) and len(args) == 2:
        # next_if(pred): look at the next element; take it iff there is one and pred(&elem)
        it = iter_id(px, st, args[0])
        cur = st.iters.setdefault(it, {'k': ('e', st.uid(), 0)})
        k = cur['k']
        st.events.append(('peek', it, k, t['sp']))
        probe = ('peekres', it, k)
        outs = []
        for tag, s2 in px.decide_tag(st, probe):
            if tag == 'neg':
                outs.append((s2, ('adt', 'core::std::option::Option', 'None', ())))
                continue
            elem = ('ref', ('T', it, k))
            for s3, rv in px.call_closure(s2, args[1], [('cref', elem)]):
                if rv == ('PANIC',):
                    outs.append((s3, rv))
                    continue
                for b, s4 in px.decide_bool(s3, rv):
                    if b:
                        s4.iters[it] = {'k': ('e', k[1], k[2] + 1)}
                        s4.events.append(('next', it, k, t['sp']))
                        outs.append((s4, ('adt', 'core::std::option::Option', 'Some', (elem,))))
                    else:
                        outs.append((s4, ('adt', 'core::std::option::Option', 'None', ())))
        return outs
    if re.search(r'as std::iter::Iterator>::next$', n) or n.endswith('iter::Iterator::next'):
        it = iter_id(px, st, args[0])
        cur = st.iters.setdefault(it, {'k': ('e', st.uid(), 0)})
        k = cur['k']
        st.iters[it] = {'k': ('e', k[1], k[2] + 1)}
        st.events.append(('next', it, k, t['sp']))
        return [(st, ('nextres', it, k))]

    # ---- equality on references / generic
    if n.endswith('impl std::cmp::PartialEq<&B> for &A>::eq'):
        a = px.deref_value(st, px.deref_value(st, args[0]))
        b = px.deref_value(st, px.deref_value(st, args[1]))
        return [(st, eqterm(a, b))]
    if (n.endswith('::eq') or n.endswith('::ne')) and ('PartialEq' in n or 'partial_eq' in n):
        a = px.deref_value(st, args[0])
        b = px.deref_value(st, args[1])
        neg = (lambda x: ('un', 'Not', x)) if n.endswith('::ne') else (lambda x: x)
        # a validated string compared with a literal (through any PartialEq impl / default method): exact shape refinement
        for x, y in ((a, b), (b, a)):
            xx = x
            while xx[0] in ('ref', 'cref') and isinstance(xx[1], tuple) and xx[1] and isinstance(xx[1][0], str) and xx[0] == 'cref':
                xx = xx[1]
            lit = literal_of(px, st, y)
            if xx[0] == 'tiny' and lit is not None:
                return [(st, neg(('pred', 'eqlit', xx[1], xx[2], lit)))]
        return [(st, neg(eqterm(a, b)))]

    # ---- Vec operations with an index precondition (panics-unless)
    m = re.search(r'vec::Vec::<T, A>::(insert|remove|swap_remove)$', n)
    if m:
        ok = index_from_search(px, st, args, m.group(1))
        outs = px.opaque_call(st, n, t, args, effects=True)
        if not ok:
            s2 = st.copy()
            s2.events.append(('panic', 'vec-index', n, t['sp'], fn, px.cur_site[1]))
            outs.append((s2, ('PANIC',)))
        return outs

    # ---- numeric conversions kept symbolic but pure
    if PURE_RE.search(n) and not MUTATOR_RE.search(n):
        if n.endswith('::binary_search') or n.endswith('::binary_search_by_key') or n.endswith('::binary_search_by') or n.endswith('::partition_point') \
                or re.search(r'iter::Iterator::position$|as std::iter::Iterator>::position$', n):
            def through(a):
                # `vec.binary_search(..)` goes through Deref: the searched collection is the vector behind the transparent wrapper
                for _ in range(4):
                    if a[0] == 'pure' and a[1].split('::')[-1] in ('deref', 'as_slice', 'as_ref', 'borrow', 'deref_mut', 'as_mut_slice') and len(a[2]) == 1:
                        a = a[2][0]
                    else:
                        break
                return a
            snap = tuple(px.deep_snap(st, px.deref_value(st, through(a)) if through(a)[0] in ('ref', 'cref') else a) for a in args)
            return [(st, ('call', n, tuple(args), st.uid(), snap))]
        return [(st, pure(n, px.snap_args(st, args)))]
    if FMT_RE.search(n):
        return [(st, ('call', n, tuple(args), st.uid()))]
    if MUTATOR_RE.search(n):
        return px.opaque_call(st, n, t, args, effects=True)
    if n.endswith('::collect') or n.endswith('::into_boxed_slice'):
        return [(st, pure(n, args))]
    return None


def slice_owner(px, st, subj):
    """the vector place a slice subject was borrowed from (`vec.iter()` goes through Deref): ('P', deref(&vec)) -> place of vec"""
    try:
        if subj[0] == 'P':
            return vec_place(px, st, subj[1])
        return px.canon(st, subj)
    except Exception:
        return None


def no_mutation_since(px, st, callterm, target):
    """no mutating call / store on `target` after the call event that produced `callterm`"""
    seen = False
    for ev in st.events[:-1]:
        if ev[0] == 'call' and ev[1] == callterm[1] and tuple(ev[2]) == tuple(callterm[2]):
            seen = True
            continue
        if seen and ev[0] == 'call' and MUTATOR_RE.search(ev[1]) and ev[2] and vec_place(px, st, ev[2][0]) == target:
            return False
        if seen and ev[0] == 'store' and px.is_prefix(ev[1], target):
            return False
    return seen


def vec_place(px, st, v):
    for _ in range(6):
        if v[0] == 'pure' and v[1].split('::')[-1] in ('deref', 'deref_mut', 'as_slice', 'as_ref', 'borrow') and v[2]:
            v = v[2][0]
        elif v[0] == 'call' and v[1].endswith('deref_mut') and v[2]:
            v = v[2][0]
        else:
            break
    return px.canon(st, ('P', v))


def index_from_search(px, st, args, op):
    """SUM discharge rule: the index of Vec::insert is the Err payload (of remove: the Ok payload) of a binary_search on
    the same vector with no mutation of it in between."""
    if len(args) < 2:
        return False
    idx = args[1]
    # remove/swap_remove need a found position (< len); insert accepts a found or a not-found position (<= len)
    wants = ('neg', 'pos') if op == 'insert' else ('pos',)
    target = vec_place(px, st, args[0])
    if op == 'insert' and idx[0] == 'call' and idx[1].endswith('::partition_point') and idx[2]:
        # partition_point returns a position in 0..=len: always a valid insertion index for the same vector
        c = idx
    elif op != 'insert' and idx[0] == 'pos' and idx[1][0] == 'call' and re.search(r'Iterator(>)?::position$', idx[1][1]) and idx[1][2]:
        # Some(i) of iter().position(..) over the same vector: i < len
        c = idx[1]
        itv = c[2][0]
        for _ in range(3):
            if itv[0] in ('ref', 'cref'):
                try:
                    itv = px.deref_value(st, itv)
                except Exception:
                    return False
        if itv[0] == 'sliceiter' and slice_owner(px, st, itv[1]) == target:
            return no_mutation_since(px, st, idx[1], target)
        return False
    else:
        if idx[0] not in wants or idx[1][0] != 'call' or not re.search(r'::binary_search(_by|_by_key)?$', idx[1][1]):
            return False
        c = idx[1]
    if vec_place(px, st, c[2][0]) != target:
        return False
    # no mutating call on the same place between the search and now
    seen = False
    for ev in st.events[:-1]:      # the last event is the insert/remove call itself
        if ev[0] == 'call' and ev[1] == c[1] and ev[2] == c[2]:
            seen = True
            continue
        if seen and ev[0] == 'call' and MUTATOR_RE.search(ev[1]) and ev[2] and vec_place(px, st, ev[2][0]) == target:
            return False
        if seen and ev[0] in ('store',) and px.is_prefix(ev[1], target):
            return False
    return seen


PANICKY_RE = re.compile(r'''(
    vec::Vec::<T,\ A>::(insert|remove|swap_remove|split_off|drain)$|VecDeque.*::(insert|remove|swap)$|
    slice::<impl\ \[T\]>::(split_at|split_at_mut|copy_from_slice|clone_from_slice|swap|rotate_left|rotate_right|chunks|chunks_exact|windows|copy_within|select_nth_unstable)$|
    ::(unwrap|expect|unwrap_err|expect_err)$|impl\ std::ops::Index(Mut)?<I>\ for|as\ std::ops::Index(Mut)?<.*>>::index(_mut)?$|
    str::<impl\ str>::(split_at|split_at_mut)$|::from_digit$|::to_digit$|cell::RefCell<T>::(borrow|borrow_mut)$|
    iter::Iterator::step_by$|::abs$|::pow$|string::String::(insert|insert_str|remove|truncate|split_off|drain|replace_range)$|
    BTreeMap.*as\ std::ops::Index|HashMap.*as\ std::ops::Index
)''', re.X)


def totality(name):
    """SUM totality column: 'total' | 'panicky' | 'diverges' | 'unknown'"""
    n = name
    if n.startswith('core::panicking::') or 'panicking::panic' in n or n.endswith('::begin_panic') or n.endswith('unwrap_failed') or n.endswith('expect_failed') \
            or n.endswith('process::abort') or n.endswith('process::exit') or n.endswith('intrinsics::abort'):
        return 'diverges'
    if PANICKY_RE.search(n):
        return 'panicky'
    if PURE_RE.search(n) or MUTATOR_RE.search(n) or FMT_RE.search(n):
        return 'total'
    if re.search(r'(as std::ops::Try>::branch$|::from_residual$|::map_err$|::ok$|::map$|::or_else$|::or$|::map_or$|::map_or_else$|::unwrap_or$|::unwrap_or_default$|'
                 r'::as_mut$|::as_deref_mut$|::unwrap_or_else$|::transpose$|::and_then$|::ok_or$|::ok_or_else$|::filter$|::then_some$|::then$|::is_some_and$|::is_ok_and$|::try_for_each$|::try_fold$|::replace$|::take$|::flatten$|::find$|::find_map$|::position$|::zip$|::copied$|::cloned$|::peek$|::next$|::any$|::all$|::collect$|'
                 r'RangeInclusive::<Idx>::(contains|new|start|end|is_empty|into_inner)$|Range::<Idx>::(contains|is_empty)$|::serialize_str$|::deserialize_str$|::deserialize_string$|::deserialize_any$|'
                 r'::custom$|::into_boxed_slice$|::iter$|::get$|::first$|::last$|::fold$|::for_each$|::next_back$|::size_hint$|::drop$|::write_char$)', n):
        return 'total'
    if TOTAL_EXTRA_RE.search(n):
        return 'total'
    return 'unknown'


# further std functions that neither panic nor diverge for any argument (read in the sysroot sources; allocation failure out of scope).
# Deliberately absent: anything that indexes or splits at a caller-supplied position, step_by / chunks / windows (panic on 0),
# unwrap / expect, RefCell borrows, integer abs / pow / division helpers, iterator sources that never end are not an issue of totality
# of the call itself (the loop rule of C01 looks at the iterator type).
TOTAL_EXTRA_RE = re.compile(r'''(
    iter::Iterator::(flat_map|flatten|chain|rev|skip|take|skip_while|take_while|map_while|scan|inspect|fuse|by_ref|enumerate|peekable|last|nth|
        min_by|max_by|min_by_key|max_by_key|count|sum|product|unzip|partition|eq|ne|lt|le|gt|ge|cmp|partial_cmp|rposition|reduce|is_sorted|
        cycle|filter|filter_map|map|zip|copied|cloned|fold|for_each|try_for_each|try_fold|find|find_map|position|any|all|collect|nth_back|rfold|rfind)$|
    iter::(once|once_with|empty|repeat|repeat_with|from_fn|successors|zip)$|iter::Peekable::<I>::(next_if|next_if_eq|peek_mut)$|
    iter::(DoubleEndedIterator|ExactSizeIterator)::(next_back|rev|len|rfind|rfold|nth_back)$|as\ std::iter::(DoubleEndedIterator|ExactSizeIterator)>::(next_back|len)$|
    BTreeMap::<K,\ V,\ A>::(contains_key|get|get_mut|get_key_value|entry|first_key_value|last_key_value|keys|values|values_mut|iter|iter_mut|len|is_empty|retain|append|extend|pop_first|pop_last|into_keys|into_values)$|
    BTreeMap::<K,\ V>::new$|btree_map::Entry::<'a,\ K,\ V,\ A>::(or_default|or_insert|or_insert_with|or_insert_with_key|and_modify|key)$|
    BTreeSet::<T,\ A>::(contains|insert|remove|get|iter|len|is_empty|first|last|retain|extend)$|BTreeSet::<T>::new$|
    slice::<impl\ \[T\]>::(partition_point|contains|starts_with|ends_with|first|last|split_first|split_last|iter|iter_mut|get|get_mut|to_vec|concat|join|
        is_sorted|is_sorted_by|is_sorted_by_key|binary_search|binary_search_by|binary_search_by_key|sort|sort_by|sort_by_key|sort_unstable|sort_unstable_by|sort_unstable_by_key|
        reverse|fill|len|is_empty|split|splitn|rsplit|split_mut|strip_prefix|strip_suffix|eq_ignore_ascii_case|is_ascii|to_ascii_lowercase|to_ascii_uppercase|
        make_ascii_lowercase|make_ascii_uppercase|first_mut|last_mut|iter|as_ptr|escape_ascii|trim_ascii|trim_ascii_start|trim_ascii_end)$|
    vec::Vec::<T,\ A>::(push|pop|clear|truncate|retain|retain_mut|dedup|dedup_by|dedup_by_key|extend_from_slice|append|reserve|reserve_exact|shrink_to_fit|shrink_to|capacity|len|is_empty|
        as_slice|as_mut_slice|into_boxed_slice|first|last|iter|contains|leak|resize|resize_with|extend|as_ptr|spare_capacity_mut)$|vec::Vec::<T>::(new|with_capacity)$|
    str::<impl\ str>::(len|is_empty|as_bytes|chars|bytes|char_indices|trim|trim_start|trim_end|trim_matches|trim_start_matches|trim_end_matches|split|splitn|rsplit|rsplitn|split_once|rsplit_once|
        split_whitespace|split_terminator|lines|find|rfind|contains|starts_with|ends_with|strip_prefix|strip_suffix|to_owned|to_string|parse|get|is_char_boundary|eq_ignore_ascii_case|
        to_lowercase|to_uppercase|to_ascii_lowercase|to_ascii_uppercase|make_ascii_lowercase|make_ascii_uppercase|is_ascii|repeat|replace|replacen|matches|match_indices|split_ascii_whitespace|trim_ascii)$|
    string::String::(new|with_capacity|push|push_str|as_str|len|is_empty|clear|capacity|reserve|into_bytes|as_bytes|into_boxed_str|pop|shrink_to_fit|from_utf8|from_utf8_lossy|as_mut_str)$|
    str::(from_utf8|from_utf8_mut)$|str::converts::(from_utf8|from_utf8_mut)$|
    num::<impl\ (u8|u16|u32|u64|u128|usize|i8|i16|i32|i64|i128|isize)>::(is_ascii\w*|to_ascii_\w+|eq_ignore_ascii_case|checked_\w+|wrapping_\w+|saturating_\w+|overflowing_\w+|
        from_[lbn]e_bytes|to_[lbn]e_bytes|count_ones|count_zeros|leading_zeros|trailing_zeros|swap_bytes|to_be|to_le|from_be|from_le|min|max|is_power_of_two|rotate_left|rotate_right|from_str_radix|MAX|MIN)$|
    char::methods::<impl\ char>::(is_ascii\w*|to_ascii_\w+|eq_ignore_ascii_case|is_alphabetic|is_alphanumeric|is_numeric|is_lowercase|is_uppercase|is_whitespace|is_control|len_utf8|
        to_lowercase|to_uppercase|encode_utf8|from_u32)$|char::convert::<impl\ std::convert::(From|TryFrom)<\w+>\ for\ \w+>::(from|try_from)$|
    mem::(swap|replace|take|drop|size_of|size_of_val|discriminant)$|hint::(must_use|black_box)$|ops::(function::)?Fn(Once|Mut)?::call(_once|_mut)?$|cmp::(min|max|min_by|max_by|min_by_key|max_by_key)$|cmp::Ord::(cmp|min|max|clamp)$|cmp::Ordering::(then|then_with|reverse|is_eq|is_ne|is_lt|is_le|is_gt|is_ge)$|
    cmp::(PartialOrd|PartialEq|Ord)::(lt|le|gt|ge|eq|ne|partial_cmp|cmp)$|as\ std::cmp::(PartialOrd|PartialEq|Ord)(<[^>]*>)?>::(lt|le|gt|ge|eq|ne|partial_cmp|cmp)$|
    option::Option::<T>::(is_some|is_none|is_some_and|is_none_or|as_ref|as_mut|as_deref|as_deref_mut|map|map_or|map_or_else|ok_or|ok_or_else|and|and_then|or|or_else|xor|filter|take|replace|insert|
        get_or_insert|get_or_insert_with|zip|unzip|unwrap_or|unwrap_or_else|unwrap_or_default|iter|iter_mut|cloned|copied|flatten|transpose|inspect|take_if)$|
    result::Result::<T,\ E>::(is_ok|is_err|is_ok_and|is_err_and|ok|err|as_ref|as_mut|as_deref|map|map_or|map_or_else|map_err|and|and_then|or|or_else|unwrap_or|unwrap_or_else|unwrap_or_default|
        iter|cloned|copied|flatten|transpose|inspect|inspect_err)$|bool::<impl\ bool>::(then|then_some)$|
    boxed::Box::<T>::new$|boxed::Box::<\[T\],\ A>::into_vec$|borrow::ToOwned::to_owned$|string::ToString::to_string$|as\ std::string::ToString>::to_string$|
    convert::(From|Into|AsRef|AsMut)::(from|into|as_ref|as_mut)$|as\ std::convert::(From|Into|AsRef|AsMut)<[^>]*>>::(from|into|as_ref|as_mut)$|
    as\ std::iter::(IntoIterator|FromIterator<[^>]*>|Extend<[^>]*>)>::(into_iter|from_iter|extend)$|as\ std::(clone::Clone|default::Default)>::(clone|clone_from|default)$|
    as\ std::ops::(Deref|DerefMut|Not|Drop)>::(deref|deref_mut|not|drop)$|as\ std::hash::Hash>::hash$|hash::Hash::hash$|hash::Hasher::\w+$|
    fmt::Formatter::<'a>::(write_str|write_fmt|pad|pad_integral|debug_\w+|alternate|width|precision|fill)$|fmt::Write::(write_str|write_char|write_fmt)$|as\ std::fmt::\w+>::fmt$|
    fmt::Arguments::<'a>::(new|new_const|new_v1|new_v1_formatted|from_str|as_str)$|fmt::rt::Argument::<'_>::(new_display|new_debug|new_lower_hex|new_upper_hex)$|fmt::format$|alloc::fmt::format$
)''', re.X)


def iter_id(px, st, a):
    """canonical identity of the iterator object behind (possibly nested) references"""
    pl = px.canon(st, ('P', a))
    for _ in range(4):
        v = px.read_opt(st, pl)
        if v[0] == 'ref' or (v[0] == 'param'):
            pl = px.canon(st, ('P', v))
        else:
            break
    return pl


def range_bounds(rng):
    if rng[0] == 'range_incl' and rng[1][0] == 'int' and rng[2][0] == 'int':
        return rng[1][1], rng[2][1]
    if rng[0] == 'bytes' and 'RangeInclusive<usize>' in rng[2] and len(rng[1]) >= 16:
        return int.from_bytes(rng[1][0:8], 'little'), int.from_bytes(rng[1][8:16], 'little')
    if rng[0] == 'adt' and rng[1].endswith('RangeInclusive') and len(rng[3]) >= 2 and rng[3][0][0] == 'int' and rng[3][1][0] == 'int':
        return rng[3][0][1], rng[3][1][1]
    if rng[0] == 'pure' and rng[1].endswith('RangeInclusive::<Idx>::new') and all(a[0] == 'int' for a in rng[2]):
        return rng[2][0][1], rng[2][1][1]
    return None


def literal_of(px, st, v):
    for _ in range(4):
        if v[0] in ('ref', 'cref'):
            v = px.deref_value(st, v)
        else:
            break
    if v[0] == 'str':
        return v[1]
    if v[0] == 'bytes' and 'TinyAsciiStr' in v[2]:
        return v[1].rstrip(b'\0')
    return None


def resolve_err(px, st, e):
    """evaluate ('errmap', closure, inner) error payloads by running the closure; -> list of (state, value)"""
    if e[0] == 'errmap':
        outs = []
        for s2, inner in resolve_err(px, st, e[2]):
            outs.extend(px.call_closure(s2, e[1], [inner]))
        return outs
    return [(st, e)]


def convert_err(px, st, ev, t, fid):
    """`?` converts the error with From: identity when the types agree, a repository impl when there is one."""
    from .px import split_generics
    dst_ty = t['dest']['ty']
    h, g = split_generics(dst_ty)
    if len(g) != 2:
        return [(st, ('errfrom', ev))]
    dst_e = g[1]
    # source error type: the generic argument E of from_residual
    gas = ga_list(t)
    src_e = None
    m = re.search(r'Result<std::convert::Infallible, (.*)>$', gas[1]) if len(gas) > 1 else None
    if m:
        src_e = m.group(1)
    if src_e is not None and px.ty_eq(src_e, dst_e):
        return [(st, ev)]
    if src_e is not None:
        for imp in px.p.facts.impls:
            if imp['trait_def'].endswith('convert::From') and px.ty_eq(imp['self_ty'], dst_e) and px.ty_eq(px.from_arg(imp['trait']), src_e):
                for it in imp['items']:
                    if it.endswith('::from') and it in px.p.bodies:
                        return px._run(st, it, [ev], 2)
    return [(st, ('errfrom', ev))]


U8_PREDS = {'is_ascii_alphabetic': 'ALPHA', 'is_ascii_alphanumeric': 'ALNUM', 'is_ascii_digit': 'DIGIT', 'is_ascii_uppercase': 'UPPER', 'is_ascii_lowercase': 'LOWER', 'is_ascii': 'ASCII'}


def byte_closure(px, st, clos):
    """BYTE engine: the exact set of bytes for which a `|c: &u8| -> bool` closure returns true (None = not understood)."""
    if clos[0] == 'fn':
        m = re.search(r'num::<impl u8>::(is_ascii\w*)$', clos[1])
        if m and m.group(1) in U8_PREDS:
            return getattr(sh, U8_PREDS[m.group(1)])
        if clos[1] not in px.p.bodies or px.p.has_loops(clos[1]):
            return None
    if clos[0] not in ('closure', 'fn') or clos[1] not in px.p.bodies:
        return None
    cache = px.__dict__.setdefault('_byte_cache', {})
    key = (clos[1], clos[2] if len(clos) > 2 else None)
    if key in cache:
        return cache[key]
    from .px import State
    tmp = State()
    tmp.counter = st.counter
    subj = ('B1', tmp.uid())
    tmp.shapes[subj] = Shape.product(1, [sh.FULL])
    body = px.p.bodies[clos[1]]
    isfn = clos[0] == 'fn'
    ai = 1 if isfn else 2
    argty = body['mir']['locals'][ai] if len(body['mir']['locals']) > ai else ''
    arg = ('ref', subj) if argty.startswith('&') else ('byte', subj, 0, ())
    try:
        outs = px._run(tmp, clos[1], [arg] if isfn else [clos, arg], 3)
    except Exception:
        cache[key] = None
        return None
    tmask, fmask = 0, 0
    for s2, rv in outs:
        if rv == ('PANIC',):
            cache[key] = None
            return None
        for b, s3 in px.decide_bool(s2, rv):
            shp = s3.shapes.get(subj)
            m = 0
            for c in (shp.cells.get(1, []) if shp else []):
                m |= c[0]
            if b:
                tmask |= m
            else:
                fmask |= m
    if tmask & fmask or (tmask | fmask) != sh.FULL:
        cache[key] = None       # some byte reaches both results: a condition was not understood
        return None
    cache[key] = tmask
    return tmask


# ---------------------------------------------------------------------------------------------------------------
def shape_get(st, subj):
    s = st.shapes.get(subj)
    if s is None:
        s = Shape.top()
    return s


def split_state(st, subj, tshape, fshape):
    out = []
    if not tshape.is_empty():
        s2 = st.copy()
        s2.shapes[subj] = tshape.normalised()
        out.append((True, s2))
    if not fshape.is_empty():
        s2 = st.copy()
        s2.shapes[subj] = fshape.normalised()
        out.append((False, s2))
    return out


def xf_mask(xf, K):
    """per-position preimage masks of K under the whole-string transform sequence xf"""
    at = sh.compose_transform(xf)
    memo = {}

    def m(p):
        q = 0 if p == 0 else 1
        if q not in memo:
            f = at(q)
            memo[q] = sh.mask(lambda b: (K >> f(b)) & 1 == 1)
        return memo[q]
    return m


def split_all_pos(shape, lo, maskfn):
    """all bytes from position lo on satisfy maskfn(p) (position dependent)"""
    t, f = {}, {}
    for n, lst in shape.cells.items():
        if n == sh.LONG:
            t[n] = list(lst)
            f[n] = list(lst)
            continue
        for c in lst:
            tc = list(c)
            ok = True
            for p in range(lo, n):
                tc[p] = c[p] & maskfn(p)
                if not tc[p]:
                    ok = False
                    break
            if ok:
                t.setdefault(n, []).append(tuple(tc))
            pre = list(c)
            for p in range(lo, n):
                bad = c[p] & ~maskfn(p) & sh.FULL
                if bad:
                    fc = list(pre)
                    fc[p] = bad
                    f.setdefault(n, []).append(tuple(fc))
                pre[p] = c[p] & maskfn(p)
                if not pre[p]:
                    break
    return Shape(t), Shape(f)


CMP = {'Eq': lambda x, n: x == n, 'Ne': lambda x, n: x != n, 'Lt': lambda x, n: x < n, 'Le': lambda x, n: x <= n,
       'Gt': lambda x, n: x > n, 'Ge': lambda x, n: x >= n}
FLIP = {'Lt': 'Gt', 'Le': 'Ge', 'Gt': 'Lt', 'Ge': 'Le', 'Eq': 'Eq', 'Ne': 'Ne'}


def norm_len(v):
    """len(v[lo..]) == n  <=>  len(v) == n + lo: rewrite comparisons on the length of a subslice to the base subject"""
    if v[0] == 'bin' and v[1] in CMP:
        a, b = v[2], v[3]
        for x, y, flip in ((a, b, False), (b, a, True)):
            if x[0] == 'len' and isinstance(x[1], tuple) and x[1] and x[1][0] == 'S' and y[0] == 'int':
                off = x[1][2] + (x[1][3] if x[1][4] else 0)
                nx = ('len', x[1][1])
                ny = INT(y[1] + off)
                return ('bin', v[1], ny, nx) if flip else ('bin', v[1], nx, ny)
    return v


def decide_bool(px, st, v):
    v = norm_len(v)
    k = v[0]
    if k == 'pred':
        kind = v[1]
        if kind == 'tag':
            return [((tag == v[3]), s2) for tag, s2 in px.decide_tag(st, v[2])]
        if kind == 'inrange':
            lo, hi, x = v[2], v[3], v[4]
            if x[0] == 'int':
                return [(lo <= x[1] <= hi, st)]
            if x[0] == 'len':
                shp = shape_get(st, x[1])
                t, f = shp.split_len(lambda n: lo <= n <= hi)
                return split_state(st, x[1], t, f)
            return None
        if kind == 'allx':
            subj, xf, K = v[2], v[3], v[4]
            shp = shape_get(st, subj)
            t, f = split_all_pos(shp, 0, xf_mask(xf, K))
            return split_state(st, subj, t, f)
        if kind in ('any', 'all'):
            subj, lo, K = v[2], v[3], v[4]
            shp = shape_get(st, subj)
            if kind == 'all':
                t, f = shp.split_all(lo, K)
            else:
                f, t = shp.split_all(lo, ~K & sh.FULL)
            return split_state(st, subj, t, f)
        if kind == 'bytein':
            bv, K = v[2], v[3]
            subj, p, xf = bv[1], bv[2], bv[3]
            mk = xf_mask(xf, K)(p)
            shp = shape_get(st, subj)
            t, f = shp.split_pos(p, mk)
            return split_state(st, subj, t, f)
        if kind == 'eqlit':
            subj, xf, lit = v[2], v[3], v[4]
            shp = shape_get(st, subj)
            at = sh.compose_transform(xf)
            masks = []
            for p, ch in enumerate(lit):
                f = at(p)
                masks.append(sh.mask(lambda b: f(b) == ch))
            t, f = shp.split_product(len(lit), masks)
            return split_state(st, subj, t, f)
        return None
    if k == 'bin' and v[1] == 'Lt' and v[3][0] == 'int' and v[2][0] == 'pos' and v[2][1][0] in ('call', 'ok'):
        # index-from-search: Ok(i) of a binary search over a static array of length N implies i < N
        c = v[2][1]
        while c[0] == 'ok':
            c = c[1]
        if c[0] == 'call' and re.search(r'::binary_search(_by|_by_key)?$', c[1]) and c[2]:
            a0 = c[2][0]
            if a0[0] == 'ref' and a0[1][0] == 'ST':
                n = px.p.static_len(a0[1][1])
                if n is not None and n == v[3][1]:
                    px.search_bounds_used.add(a0[1][1])
                    return [(True, st)]
    if k == 'bin' and v[1] == 'Lt' and v[3][0] == 'len' and v[2][0] == 'pos' and v[2][1][0] in ('call', 'ok'):
        # index-from-search on a slice: Ok(i) of a binary search over s implies i < s.len()
        c = v[2][1]
        while c[0] == 'ok':
            c = c[1]
        if c[0] == 'call' and re.search(r'::binary_search(_by|_by_key)?$', c[1]) and c[2]:
            try:
                if px.subject_of(st, c[2][0]) == v[3][1]:
                    return [(True, st)]
            except Exception:
                pass
    if k == 'bin' and v[1] in CMP:
        op, a, b = v[1], v[2], v[3]
        if a[0] == 'int' and b[0] != 'int':
            a, b, op = b, a, FLIP[op]
        if b[0] == 'int':
            n = b[1]
            if a[0] == 'len':
                shp = shape_get(st, a[1])
                t, f = shp.split_len(lambda x: CMP[op](x, n))
                return split_state(st, a[1], t, f)
            if a[0] == 'byte':
                subj, p, xf = a[1], a[2], a[3]
                at = sh.compose_transform(xf)(p)
                mk = sh.mask(lambda x: CMP[op](at(x), n))
                shp = shape_get(st, subj)
                t, f = shp.split_pos(p, mk)
                return split_state(st, subj, t, f)
        # equality of two symbolic values used as an atom: normalise operand order
        if op in ('Eq', 'Ne'):
            atom = ('bin', 'Eq') + tuple(sorted((a, b), key=repr))
            if atom in st.facts:
                r = st.facts[atom]
                return [(r if op == 'Eq' else not r, st)]
            out = []
            for r in (True, False):
                s2 = st.copy()
                s2.facts[atom] = r
                out.append((r if op == 'Eq' else not r, s2))
            return out
        return None
    if k == 'pure' and v[1] == 'eq':
        a, b = v[2]
        if a == b:
            return [(True, st)]
        # two known values of one enum in different variants are unequal - under the derived (structural) PartialEq or a std sum type;
        # reached through the default `ne` of core, which is not a repository body (`state != State::Done`)
        if a[0] == 'adt' and b[0] == 'adt' and a[1] == b[1] and a[2] != b[2] and structural_eq(px, a[1]):
            return [(False, st)]
        # `x == None` is `x.is_none()`; `Some(..) == None` is false
        for x, y in ((a, b), (b, a)):
            if y[0] == 'adt' and y[2] == 'None' and not y[3] and 'option::Option' in y[1]:
                xx = x
                for _ in range(3):
                    if xx[0] in ('ref', 'cref'):
                        try:
                            xx = px.deref_value(st, xx)
                        except Exception:
                            break
                return [((tag == 'neg'), s2) for tag, s2 in px.decide_tag(st, xx)]
        # `a.cmp(&b) == Ordering::Equal` is `a == b` (Eq and Ord agree: derived impls, ITEM-DERIVED; std types)
        for x, y in ((a, b), (b, a)):
            if y[0] == 'adt' and y[1].endswith('cmp::Ordering') and y[2] == 'Equal' and x[0] == 'pure' and re.search(r'(^|::)cmp$', x[1]) and len(x[2]) == 2:
                def val(t):
                    for _ in range(4):
                        if t[0] in ('ref', 'cref'):
                            try:
                                t = px.deref_value(st, t)
                            except Exception:
                                break
                    return t
                return decide_bool(px, st, eqterm(val(x[2][0]), val(x[2][1])))
        return None
    return None


def structural_eq(px, adt):
    """is `==` on this sum type variant-wise: Option / Result / Ordering, or a repository type whose PartialEq impl is derive output"""
    if re.search(r'(^|::)(option::Option|result::Result|cmp::Ordering)$', adt):
        return True
    short = adt.split('::', 1)[-1]
    for imp in px.p.facts.impls:
        if imp['trait_def'].endswith('cmp::PartialEq') and imp['trait'].endswith('std::cmp::PartialEq>') and imp['self_ty'] in (adt, short):
            return bool(imp.get('derived'))
    return False


def decide_tag(px, st, c):
    k = c[0]
    if k == 'tinyres':
        subj, N = c[1], c[2]
        shp = shape_get(st, subj)
        t1, f1 = shp.split_len(lambda n: n <= N)
        t2, f2 = t1.split_all(0, sh.ASCII_NZ)
        out = []
        if not t2.is_empty():
            s2 = st.copy()
            s2.shapes[subj] = t2.normalised()
            out.append(('pos', s2))
        fshape = Shape.union_of([f1, f2])
        if not fshape.is_empty():
            s2 = st.copy()
            s2.shapes[subj] = fshape
            out.append(('neg', s2))
        return out
    if k == 'arrres':
        subj, N = c[1], c[2]
        shp = shape_get(st, subj)
        tt, ff = shp.split_len(lambda n: n == N)
        return [('pos' if b else 'neg', s2) for b, s2 in split_state(st, subj, tt, ff)]
    if k == 'getres':
        subj, i = c[1], c[2]
        shp = shape_get(st, subj)
        t, f = shp.split_len(lambda n: n > i)
        return [('pos' if b else 'neg', s2) for b, s2 in split_state(st, subj, t, f)]
    return None


def pos_payload_ext(px, st, v):
    if v[0] == 'arrres':
        return ('arrval', v[1], v[2])
    if v[0] == 'getres':
        return px.mkref(('I', v[1], INT(v[2])))
    return None


def decide_switch(px, st, v, targets, other):
    """switchInt on a non-boolean symbolic integer"""
    if v[0] == 'len':
        subj = v[1]
        shp = shape_get(st, subj)
        out = []
        rest = shp
        for val, b in targets:
            t, rest = rest.split_len(lambda n, val=val: n == val)
            if not t.is_empty():
                s2 = st.copy()
                s2.shapes[subj] = t.normalised()
                out.append((b, s2))
        if not rest.is_empty():
            s2 = st.copy()
            s2.shapes[subj] = rest.normalised()
            out.append((other, s2))
        return out
    if v[0] == 'byte':
        subj, p, xf = v[1], v[2], v[3]
        at = sh.compose_transform(xf)(p)
        shp = shape_get(st, subj)
        out = []
        rest = shp
        for val, b in targets:
            mk = sh.mask(lambda x, val=val: at(x) == val)
            t, rest = rest.split_pos(p, mk)
            if not t.is_empty():
                s2 = st.copy()
                s2.shapes[subj] = t.normalised()
                out.append((b, s2))
        if not rest.is_empty():
            s2 = st.copy()
            s2.shapes[subj] = rest.normalised()
            out.append((other, s2))
        return out
    if v[0] == 'tbyte':
        # byte p of the storage of TinyAsciiStr::from_bytes(subject) under the case transform: NUL when the subject is shorter
        subj, p, xf = v[1], v[2], v[3]
        shp = shape_get(st, subj)
        short, rest = shp.split_len(lambda n: n <= p)
        out = []
        tmap = dict(targets)
        if not short.is_empty():
            s2 = st.copy()
            s2.shapes[subj] = short.normalised()
            out.append((tmap.get(0, other), s2))
        at = sh.compose_transform(xf)(p)
        for val, b in targets:
            mk = sh.mask(lambda x, val=val: at(x) == val)
            t, rest = rest.split_pos(p, mk)
            if not t.is_empty():
                s2 = st.copy()
                s2.shapes[subj] = t.normalised()
                out.append((b, s2))
        if not rest.is_empty():
            s2 = st.copy()
            s2.shapes[subj] = rest.normalised()
            out.append((other, s2))
        return out
    if v[0] == 'cast':
        return decide_switch(px, st, v[1], targets, other)
    return None
