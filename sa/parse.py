"""PARSE — token-stream parsers as transition tables (DESIGN §3.9).

A parser function is explored by PX into segments between loop heads.  For every segment this module extracts a *step*:
    * the tokens it touched (iterator element ids), the exact Shape of each on this path, whether it was consumed (`next`);
    * the sinks that received the token's validated text: (sink id, role-independent description of the stored value);
    * sub-parser calls made with the iterator, and where their result was stored;
    * how the segment ends: continues at a loop head / returns Ok / returns Err(constant) / panics.
Clients compare the steps with per-function specification tables by a product exploration (implementation head node x
specification state)."""
import re
from . import px as pxm, terms, models, shape as sh
from .shape import Shape


class Tok:
    __slots__ = ('it', 'el', 'subject', 'shape', 'consumed', 'peeked', 'present', 'first')

    def __init__(self, it, el):
        self.it, self.el = it, el
        self.subject = ('T', it, el)
        self.shape = None
        self.consumed = False
        self.peeked = False
        self.present = None      # 'pos' | 'neg' | None  (iterator had an element)
        self.first = -1          # index of the first event of the segment that touches it (-1: carried in from before the segment)


class Step:
    def __init__(self, seg):
        self.seg = seg
        self.tokens = []          # in order of first touch
        self.stores = []          # (sink, value term, token or None, transform, span)
        self.subcalls = []        # (callee, result term, stored sink or None, span)
        self.end = None           # ('head', node) | ('ok', value) | ('err', value) | ('panic',) | ('other',)

    def tok(self, it, el):
        for t in self.tokens:
            if t.it == it and t.el == el:
                return t
        t = Tok(it, el)
        self.tokens.append(t)
        return t


def find_tiny(v, depth=0):
    """('tiny', subject, xf) terms inside a stored value"""
    return terms.find_terms(v, lambda t: t[0] == 'tiny')


def inner_path(val, target, depth=0):
    """field path from a stored value down to the sub-term `target` (through Some(..) payloads = 0, tuple / struct fields); () if val is it"""
    if val is target or val == target:
        return ()
    if depth > 8 or not isinstance(val, tuple) or not val:
        return None
    if val[0] == 'adt':
        for i, x in enumerate(val[3]):
            r = inner_path(x, target, depth + 1)
            if r is not None:
                return (i,) + r
    if val[0] == 'tuple':
        for i, x in enumerate(val[1]):
            r = inner_path(x, target, depth + 1)
            if r is not None:
                return (i,) + r
    return None


def sink_of_place(px, pl):
    """stable description of a local / field sink: ('L', local, field path)"""
    path = []
    while pl[0] in ('F', 'D'):
        if pl[0] == 'F':
            path.append(pl[2])
        pl = pl[1]
    if pl[0] == 'L':
        if pl[1] != 1:
            return None          # a local of an inlined callee (a temporary of a validator), not a slot of the parser
        return ('L', pl[2], tuple(reversed(path)))
    if pl[0] == 'P':
        ap = terms.access_path(pl)
        if ap:
            return ('P', ap[0], tuple(reversed(path)))
    return None


class ParserAnalysis:
    def __init__(self, prog, fn, iter_param=1, opaque=()):
        self.prog = prog
        self.fn = fn
        self.e = pxm.PX(prog, opaque=set(opaque))
        self.segs = self.e.explore(fn)
        self.iter_place = ('P', ('param', iter_param))
        # the token iterator: the parameter itself, or the single local iterator the function drives (`for subtag in iter`)
        its = set()
        for s in self.segs:
            for ev in s.events:
                if ev[0] in ('peek', 'next'):
                    its.add(ev[1])
        self.token_iters = {self.iter_place}
        if self.iter_place not in its and len(its) == 1:
            self.token_iters = set(its)
        self.steps = [self.step_of(s) for s in self.segs]
        self.entry = None
        for s in self.segs:
            if s.src[0] == 'entry':
                self.entry = s.src

    def is_token_iter(self, it):
        return it in self.token_iters or (it[0] == 'P' and terms.access_path(it) == (self.iter_place[1][1], ()))

    def step_of(self, s):
        e = self.e
        st = Step(s)
        st.store_idx, st.subcall_idx = [], []
        for i, ev in enumerate(s.events):
            if ev[0] in ('peek', 'next') and self.is_token_iter(ev[1]):
                known = any(t.it == ev[1] and t.el == ev[2] for t in st.tokens)
                t = st.tok(ev[1], ev[2])
                if not known:
                    t.first = i
                if ev[0] == 'peek':
                    t.peeked = True
                else:
                    t.consumed = True
        # tokens carried in from the previous iteration (token cell): any T subject with a shape / any has-fact
        for subj in s.shapes:
            if subj[0] == 'T' and self.is_token_iter(subj[1]):
                st.tok(subj[1], subj[2])
        for k, v in s.facts.items():
            if k[0] == 'tag' and k[1][0] == 'has' and self.is_token_iter(k[1][1]):
                st.tok(k[1][1], k[1][2]).present = v
        for t in st.tokens:
            t.shape = s.shapes.get(t.subject)
        # stores
        for evi, ev in enumerate(s.events):
            val = None
            sink = None
            if ev[0] in ('store', 'lstore'):
                sink = sink_of_place(e, ev[1])
                val = ev[2]
            elif ev[0] == 'call' and models.MUTATOR_RE.search(ev[1]) and ev[2] and ev[1].split('::')[-1] in ('push', 'insert', 'extend', 'push_str', 'append'):
                tp = models.vec_place(e, s.state, ev[2][0])
                sink = sink_of_place(e, tp) if tp is not None else None
                val = ('tuple', tuple(ev[2][1:]))
                if sink is not None:
                    sink = sink + (ev[1].split('::')[-1],)
            if sink is None or val is None:
                continue
            tin = find_tiny(val)
            tok = None
            xf = None
            for tt in tin:
                for t in st.tokens:
                    if tt[1] == t.subject:
                        tok, xf = t, tt[2]
                        # the cell inside the stored value that holds the token's text refines the sink (Some((key, values)) -> .0.0)
                        inner = inner_path(val, tt)
                        if inner and sink is not None and len(sink) == 3:
                            sink = (sink[0], sink[1], tuple(sink[2]) + tuple(inner))
            st.stores.append((sink, val, tok, xf, ev[3] if len(ev) > 3 else None))
            st.store_idx.append(evi)
        # sub-parser calls with the iterator
        for evi, ev in enumerate(s.events):
            if ev[0] == 'call' and ev[1] in self.prog.bodies and ev[2]:
                try:
                    it = models.iter_id(e, s.state, ev[2][0])
                except Exception:
                    it = None
                if it is not None and self.is_token_iter(it):
                    st.subcalls.append((ev[1], ev, None, ev[3]))
                    st.subcall_idx.append(evi)
        # end
        if s.kind == 'loop':
            st.end = ('head', s.dst)
        elif s.kind == 'return':
            r = s.ret
            if r is not None and r[0] == 'adt' and r[2] == 'Err':
                st.end = ('err', r[3][0] if r[3] else None)
            elif r is not None and r[0] == 'adt' and r[2] == 'Ok':
                st.end = ('ok', r[3][0] if r[3] else None)
            else:
                st.end = ('other', r)
        elif s.kind == 'panic':
            st.end = ('panic',)
        else:
            st.end = ('other', None)
        return st

    # ---------------------------------------------------------------- debugging / reports
    def describe(self, st, maxlen=120):
        e = self.e
        parts = []
        for t in st.tokens:
            parts.append('tok%s%s%s: %s' % ('L' if t.el[2] == -1 else t.el[2], '*' if t.consumed else '', {'pos': '', 'neg': '(none)', None: '(?)'}[t.present],
                                           (t.shape.describe()[:maxlen] if t.shape is not None else 'any')))
        for sink, val, tok, xf, sp in st.stores:
            parts.append('store %s := %s%s' % (sink, ('tok%s/%s' % (tok.el[2], '+'.join(xf) if xf else 'raw')) if tok else e.short(val, 60), ''))
        for c in st.subcalls:
            parts.append('call %s' % c[0].split('::')[-2:])
        end = st.end
        if end[0] == 'head':
            parts.append('-> head')
        elif end[0] in ('ok', 'err'):
            parts.append('-> %s %s' % (end[0], e.short(end[1], 60) if end[1] else ''))
        else:
            parts.append('-> %s' % end[0])
        return ' | '.join(parts)
