"""Helpers over PX terms: access paths (which parameter / field a term designates), type walking over ADT facts."""
import re

TRANSPARENT = ('as_ref', 'borrow', 'deref', 'as_deref', 'as_mut', 'deref_mut', 'borrow_mut', 'clone', 'as_slice', 'into', 'from')


def access_path(v, depth=0):
    """(root parameter index, tuple of path elements) for a term/place rooted at a parameter, else None.
    Path elements: int (field index), 'some' (payload of Some/Ok)."""
    if depth > 40 or not isinstance(v, tuple) or not v:
        return None
    k = v[0]
    if k == 'param':
        return (v[1], ())
    if k in ('ref', 'cref', 'init', 'P', 'optref'):
        return access_path(v[1], depth + 1)
    if k in ('F', 'fld'):
        b = access_path(v[1], depth + 1)
        if b is None or not isinstance(v[2], int):
            return None
        return (b[0], b[1] + (v[2],))
    if k in ('D', 'dcv'):
        b = access_path(v[1], depth + 1)
        if b is None:
            return None
        return (b[0], b[1] + (('some',) if v[2] in ('Some', 'Ok') else (('variant', v[2]),)))
    if k == 'pos':
        b = access_path(v[1], depth + 1)
        if b is None:
            return None
        return (b[0], b[1] + ('some',))
    if k == 'pure' and v[1].split('::')[-1] in TRANSPARENT and len(v[2]) == 1:
        return access_path(v[2][0], depth + 1)
    if k == 'adt' and v[2] == 'Some' and len(v[3]) == 1:
        # Some(payload-of-x) re-wrapping: designates x when the payload is x's payload
        b = access_path(v[3][0], depth + 1)
        if b and b[1] and b[1][-1] == 'some':
            return (b[0], b[1][:-1])
        return None
    return None


def strip_some(path):
    return tuple(p for p in path if p != 'some')


def norm_ty(t):
    t = re.sub(r"'[a-z_0-9]+ ", '', t.strip())
    t = re.sub(r'\[[0-9a-f]{4}\]', '', t)
    t = t.lstrip('&').replace('mut ', '')
    return t.strip()


def find_adt(facts, ty):
    """ADT fact for a (crate-relative or absolute) type string"""
    t = norm_ty(ty)
    t = re.sub(r'<.*>$', '', t)
    if t in facts.adts:
        return t, facts.adts[t]
    c = [n for n in facts.adts if n.endswith('::' + t) or n.split('::', 1)[-1] == t]
    if len(c) == 1:
        return c[0], facts.adts[c[0]]
    # same tail in several crates: prefer exact crate-relative match
    c2 = [n for n in c if n.split('::', 1)[-1] == t]
    if len(c2) == 1:
        return c2[0], facts.adts[c2[0]]
    return None, None


def struct_fields(facts, ty):
    n, a = find_adt(facts, ty)
    if a is None or a['kind'] != 'struct' or len(a['variants']) != 1:
        return None
    return a['variants'][0]['fields']


def type_at(facts, ty, path):
    """type reached from `ty` by following int field indices ('some' steps unwrap Option/Result)"""
    cur = norm_ty(ty)
    for p in path:
        if p == 'some':
            m = re.match(r'^std::(option::Option|result::Result)<(.*)>$', cur)
            if not m:
                return None
            inner = m.group(2)
            # first generic argument
            depth, out = 0, ''
            for ch in inner:
                if ch in '<([':
                    depth += 1
                elif ch in '>)]':
                    depth -= 1
                if ch == ',' and depth == 0:
                    break
                out += ch
            cur = norm_ty(out)
            continue
        if not isinstance(p, int):
            return None
        fs = struct_fields(facts, cur)
        if fs is None or p >= len(fs):
            return None
        cur = norm_ty(fs[p]['ty'])
    return cur


def field_names(facts, ty, path):
    names = []
    cur = norm_ty(ty)
    for p in path:
        if p == 'some':
            cur = type_at(facts, cur, ('some',))
            continue
        fs = struct_fields(facts, cur)
        if fs is None or not isinstance(p, int) or p >= len(fs):
            names.append('?%s' % (p,))
            return names
        names.append(fs[p]['name'])
        cur = norm_ty(fs[p]['ty'])
    return names


def walk(v, fn, depth=0):
    """pre-order visit of all sub-terms"""
    if not isinstance(v, tuple) or depth > 60 or not v:
        return
    if isinstance(v[0], str):
        fn(v)
    for x in v:
        if isinstance(x, tuple):
            walk(x, fn, depth + 1)


def find_terms(v, pred):
    out = []
    walk(v, lambda t: out.append(t) if t and isinstance(t[0], str) and pred(t) else None)
    return out


def involves_param(v, i):
    return bool(find_terms(v, lambda t: t == ('param', i)))
