"""Fact layer: runs the factgen rustc driver over /repo (per feature configuration) and loads the JSON dumps.

Nothing here executes repository code: `cargo +nightly check` only type-checks; the driver prints MIR/HIR facts.
Dumps are cached under /verif/.cache/<tree-hash>/<config>/ where tree-hash covers every file cargo could read,
so an edited tree is always re-dumped and several checks on the same tree share one dump.
"""
import fcntl
import glob
import hashlib
import json
import os
import shutil
import subprocess
import sys
import tempfile
import time

VERIF = os.path.dirname(os.path.dirname(os.path.abspath(__file__)))
REPO = os.environ.get('VERIF_REPO', '/repo')
DRIVER_DIR = os.path.join(VERIF, 'driver')
DRIVER = os.path.join(DRIVER_DIR, 'target', 'debug', 'factgen')
CACHE = os.environ.get('VERIF_CACHE') or os.path.join(VERIF, '.cache')   # override: tools/pmatrix.py (scratch copies analysed in parallel)

CONFIGS = {
    # id: (cargo selector args, description)
    'K0': (['--workspace'], 'workspace, no features (baseline configuration)'),
    'K1': (['-p', 'unic-langid-impl', '-p', 'unic-locale-impl', '--features', 'unic-langid-impl/likelysubtags'],
           'impl crates with likelysubtags'),
    'K2': (['-p', 'unic-langid-impl', '--features', 'serde'], 'unic-langid-impl with serde'),
    'K3': (['--workspace', '--all-features'], 'workspace, all features'),
    # thorough-only feature subsets (C20)
    'K4': (['-p', 'unic-langid-impl', '--features', 'likelysubtags,serde'], 'unic-langid-impl likelysubtags+serde'),
    'K5': (['-p', 'unic-langid', '--features', 'macros'], 'unic-langid macros'),
    'K6': (['-p', 'unic-langid', '--features', 'macros,serde,likelysubtags'], 'unic-langid all'),
    'K7': (['-p', 'unic-locale', '--features', 'macros'], 'unic-locale macros'),
    'K8': (['-p', 'unic-locale', '--features', 'macros,likelysubtags'], 'unic-locale all'),
    'K9': (['-p', 'unic-langid', '--features', 'serde'], 'unic-langid serde'),
    'K10': (['-p', 'unic-langid', '--features', 'likelysubtags'], 'unic-langid likelysubtags'),
    'K11': (['-p', 'unic-locale', '--features', 'likelysubtags'], 'unic-locale likelysubtags'),
    'K12': (['-p', 'unic-langid'], 'unic-langid alone, no features'),
    'K13': (['-p', 'unic-locale'], 'unic-locale alone, no features'),
}


class AnalysisError(Exception):
    pass


def log(*a):
    print(*a, file=sys.stderr, flush=True)


def sha_file(p):
    h = hashlib.sha256()
    with open(p, 'rb') as f:
        for chunk in iter(lambda: f.read(1 << 20), b''):
            h.update(chunk)
    return h.hexdigest()


_tree_hash = {}


def tree_hash(repo=None):
    repo = repo or REPO
    if repo in _tree_hash:
        return _tree_hash[repo]
    h = hashlib.sha256()
    entries = []
    for root, dirs, files in os.walk(repo):
        dirs[:] = sorted(d for d in dirs if d not in ('target', '.git'))
        for f in sorted(files):
            p = os.path.join(root, f)
            if os.path.islink(p) or not os.path.isfile(p):
                continue
            entries.append((os.path.relpath(p, repo), sha_file(p)))
    for rel, d in entries:
        h.update(rel.encode() + b'\0' + d.encode() + b'\n')
    # the driver is part of the key: a rebuilt driver must not reuse old dumps
    for src in sorted(glob.glob(os.path.join(DRIVER_DIR, 'src', '*.rs'))):
        h.update(b'driver\0' + sha_file(src).encode())
    h.update(b'facts\0' + sha_file(os.path.abspath(__file__)).encode())     # configuration selectors live in this file
    _tree_hash[repo] = h.hexdigest()[:24]
    return _tree_hash[repo]


def sysroot():
    return subprocess.check_output(['rustc', '+nightly', '--print', 'sysroot'], text=True).strip()


def ensure_driver():
    srcs = glob.glob(os.path.join(DRIVER_DIR, 'src', '*.rs'))
    if os.path.exists(DRIVER) and all(os.path.getmtime(DRIVER) >= os.path.getmtime(s) for s in srcs):
        return
    os.makedirs(CACHE, exist_ok=True)
    with open(os.path.join(CACHE, '.driver.lock'), 'w') as lk:
        fcntl.flock(lk, fcntl.LOCK_EX)
        if os.path.exists(DRIVER) and all(os.path.getmtime(DRIVER) >= os.path.getmtime(s) for s in srcs):
            return
        log('[facts] building factgen driver ...')
        env = dict(os.environ, CARGO_NET_OFFLINE='true')
        env.pop('RUSTC_WORKSPACE_WRAPPER', None)
        env.pop('RUSTC_WRAPPER', None)
        env.pop('RUSTFLAGS', None)
        r = subprocess.run(['cargo', 'build', '--offline'], cwd=DRIVER_DIR, env=env, capture_output=True, text=True)
        if r.returncode != 0 or not os.path.exists(DRIVER):
            raise AnalysisError('factgen driver failed to build:\n' + r.stderr[-3000:])


def run_driver(cwd, selector, outdir, extra_env=None, wrapper_all=False, cargo_cmd='check'):
    """One `cargo +nightly check` with the driver injected; fresh target dir, removed afterwards."""
    ensure_driver()
    tgt = tempfile.mkdtemp(prefix='verif-tgt-')
    os.makedirs(outdir, exist_ok=True)
    env = dict(os.environ)
    env.update({
        'LD_LIBRARY_PATH': sysroot() + '/lib' + (':' + env['LD_LIBRARY_PATH'] if env.get('LD_LIBRARY_PATH') else ''),
        'RUSTFLAGS': '-Zmir-opt-level=0 -Awarnings',
        'CARGO_TARGET_DIR': tgt,
        'CARGO_NET_OFFLINE': 'true',
        'FACTGEN_OUT': outdir,
    })
    env['RUSTC_WRAPPER' if wrapper_all else 'RUSTC_WORKSPACE_WRAPPER'] = DRIVER
    if extra_env:
        env.update(extra_env)
    try:
        r = subprocess.run(['cargo', '+nightly', cargo_cmd, '--offline'] + selector, cwd=cwd, env=env,
                           capture_output=True, text=True)
    finally:
        shutil.rmtree(tgt, ignore_errors=True)
    return r


def selector(config, repo):
    """cargo arguments of a configuration.  K1 ("the impl crates with likely-subtags support") switches the feature on in *each* of the two impl
    crates that declares it - code of unic-locale-impl under cfg(feature = "likelysubtags") is compiled only through that crate's own feature,
    which merely forwarding unic-langid-impl/likelysubtags does not select (manifests read with cargo metadata, no build)."""
    sel = list(CONFIGS[config][0])
    if config == 'K1':
        try:
            r = subprocess.run(['cargo', 'metadata', '--no-deps', '--format-version', '1', '--offline'], cwd=repo, capture_output=True, text=True)
            pk = {p['name']: p for p in json.loads(r.stdout)['packages']}
            feats = ['%s/likelysubtags' % n for n in ('unic-langid-impl', 'unic-locale-impl') if n in pk and 'likelysubtags' in pk[n].get('features', {})]
            if feats:
                sel = ['-p', 'unic-langid-impl', '-p', 'unic-locale-impl', '--features', ','.join(feats)]
        except Exception:
            pass
    return sel


def dump(config, repo=None):
    """Returns the directory with the fact files of `config` for the current tree (dumping if needed)."""
    repo = repo or REPO
    th = tree_hash(repo)
    d = os.path.join(CACHE, th, config)
    done = os.path.join(d, '.done')
    if os.path.exists(done):
        try:
            os.utime(os.path.join(CACHE, th), None)      # most recently used: survives pruning
        except OSError:
            pass
        return d
    os.makedirs(os.path.join(CACHE, th), exist_ok=True)
    with open(os.path.join(CACHE, th, '.%s.lock' % config), 'w') as lk:
        fcntl.flock(lk, fcntl.LOCK_EX)
        if os.path.exists(done):
            return d
        shutil.rmtree(d, ignore_errors=True)
        t0 = time.time()
        sel = selector(config, repo)
        r = run_driver(repo, sel, d)
        if r.returncode != 0:
            shutil.rmtree(d, ignore_errors=True)
            raise AnalysisError('cargo check failed for configuration %s (%s):\n%s' % (config, ' '.join(sel), r.stderr[-4000:]))
        if not glob.glob(os.path.join(d, '*.json')):
            raise AnalysisError('configuration %s produced no fact files (driver skipped?)' % config)
        with open(done, 'w') as f:
            f.write('%.1f\n' % (time.time() - t0))
        log('[facts] dumped %s in %.1fs' % (config, time.time() - t0))
    prune_cache(keep=th)
    return d


def prune_cache(keep, maxn=6):
    try:
        ds = [os.path.join(CACHE, x) for x in os.listdir(CACHE) if not x.startswith('.') and os.path.isdir(os.path.join(CACHE, x))]
        ds.sort(key=os.path.getmtime, reverse=True)
        for x in ds[maxn:]:
            if os.path.basename(x) != keep:
                shutil.rmtree(x, ignore_errors=True)
    except OSError:
        pass


class Crate:
    def __init__(self, j, path):
        self.j = j
        self.path = path
        self.name = j['crate']
        self.bodies = j['bodies']
        self.data = j['data']
        self.adts = j['adts']
        self.impls = j['impls']
        self.root_children = j['root_children']
        self.cfgs = j['cfgs']
        self.crate_type = j['crate_type']


class Facts:
    """All crates of one configuration; bodies/adts/data merged by crate-qualified def path."""

    def __init__(self, config, directory):
        self.config = config
        self.dir = directory
        self.crates = {}
        for p in sorted(glob.glob(os.path.join(directory, '*.json'))):
            with open(p) as f:
                j = json.load(f)
            c = Crate(j, p)
            old = self.crates.get(c.name)
            if old is not None:
                # same crate compiled twice (check + link for proc-macro consumers): facts must agree
                if len(old.bodies) != len(c.bodies) or sorted(old.cfgs) != sorted(c.cfgs):
                    # different feature sets of the same crate in one build (the target build with the requested features and the host build the
                    # proc-macro crates link): keep the one with more features switched on - the number of bodies is only a tie-breaker, a feature
                    # may swap one cfg variant of a function for another without adding any
                    if (len(set(c.cfgs)), len(c.bodies)) < (len(set(old.cfgs)), len(old.bodies)):
                        continue
            self.crates[c.name] = c
        self.bodies = {}
        self.adts = {}
        self.data = {}
        self.impls = []
        from . import desugar
        for c in self.crates.values():
            desugar.desugar_crate(c.bodies)         # iter.map(f).collect::<Result<Vec<_>, _>>() as the loop it abbreviates
            self.bodies.update(c.bodies)
            self.adts.update(c.adts)
            self.data.update(c.data)
            self.impls.extend(c.impls)

    def crate(self, name):
        if name not in self.crates:
            raise AnalysisError('ANCHOR-MISSING: crate %s not in configuration %s' % (name, self.config))
        return self.crates[name]


_loaded = {}


def load(config, repo=None):
    repo = repo or REPO
    key = (config, repo, tree_hash(repo))
    if key not in _loaded:
        _loaded[key] = Facts(config, dump(config, repo))
    return _loaded[key]


def dump_many(configs, repo=None):
    """Dump several configurations in parallel (separate processes, separate target dirs)."""
    import concurrent.futures as cf
    with cf.ThreadPoolExecutor(max_workers=min(4, len(configs))) as ex:
        list(ex.map(lambda c: dump(c, repo), configs))
