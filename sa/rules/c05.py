"""C05 — string round trip: parsing what was serialised gives back the same value (DESIGN §4.5).

Round-trip equality is a run-time relation; decided here are its structural preconditions:
  (a) the printer is its grammar (EMIT) and the parsers are their tables (PARSE) - obligations shared with C04 / C03;
  (b) SPEC-ROUNDTRIP: feeding every sentence of the printer grammar (stars unrolled 0..2, canonical shape of every printed role)
      to the parser tables re-reads every printed subtag into the slot it was printed from, in every state reached
      (order t,u,x accepted; positional class disjointness; singletons end each part) - the paper argument, mechanised;
  (c) every validator maps its own canonical output to itself (image of the production under the transform lies inside the
      production and the transform is the identity there); "und" <-> empty language; "true" never stored;
  (d) single representation of emptiness and order (typestate obligations shared with C10 / C12)."""
import itertools
from .. import shape as sh, terms
from ..shape import Shape
from . import common, emitrules, parserules, parsetables as pt, validators, c10, c13, entry, subtag_api

# printer symbol -> (parser, slot, role)
SYM = {
    'LanguageIdentifier': {'Language': ('Language', 'Language'), 'Option<Script>': ('Option<Script>', 'Script'), 'Option<Region>': ('Option<Region>', 'Region'),
                           'Option<Box<[Variant]>>.elem': ('variants', 'Variant')},
    'UnicodeExtensionList': {emitrules.VEC8 + '.elem': ('list', 'uattr'), emitrules.MAP + '.elem.key': ('K', 'ukey'), emitrules.MAP + '.elem.val.elem': ('V', 'utype')},
    'TransformExtensionList': {emitrules.MAP + '.elem.key': ('K', 'tkey'), emitrules.MAP + '.elem.val.elem': ('V', 'tvalue'), 'Option<LanguageIdentifier>': ('tlang', None)},
    'PrivateExtensionList': {emitrules.VEC8 + '.elem': ('list', 'privatetag')},
}


def canonical_shape(role):
    """image of the production under the role's case transform (what Display can print for this role)"""
    out = []
    for n, lst in role.accept.cells.items():
        if n == sh.LONG:
            continue
        for c in lst:
            masks = []
            for p, m in enumerate(c):
                f = sh.transform_at(role.transform, p)
                masks.append(sh.mask_of(set(f(b) for b in sh.bytes_of(m))))
            out.append(Shape.product(n, masks))
    s = Shape.union_of(out)
    if role.special:
        s = s.minus(role.special_shape())
    return s


def sentences(ast, unroll=2):
    """all symbol/literal sequences of a grammar AST with stars taken 0..unroll times"""
    k = ast[0]
    if k == 'lit':
        return [[('lit', ast[1])]]
    if k == 'sym':
        return [[('sym', ast[1])]]
    if k == 'seq':
        res = [[]]
        for x in ast[1]:
            res = [a + b for a in res for b in sentences(x, unroll)]
        return res
    if k == 'alt':
        return [s for x in ast[1] for s in sentences(x, unroll)]
    if k == 'opt':
        return [[]] + sentences(ast[1], unroll)
    if k == 'star':
        body = sentences(ast[1], unroll)
        res = [[]]
        cur = [[]]
        for _ in range(unroll):
            cur = [a + b for a in cur for b in body]
            res += cur
        return res
    return [[]]


def tokens_of(sentence):
    """split a printed sentence into subtags at the literal '-': each subtag is ('lit', bytes) or ('sym', name)"""
    toks = []
    cur = ('lit', b'') if sentence and sentence[0][0] == 'lit' and sentence[0][1][:1] == b'-' else None
    for kind, v in sentence:
        if kind == 'lit':
            for ch in v:
                if ch == 0x2D:
                    if cur is not None:
                        toks.append(cur)
                    cur = ('lit', b'')
                else:
                    if cur is None:
                        cur = ('lit', b'')
                    if cur[0] != 'lit':
                        return None
                    cur = ('lit', cur[1] + bytes([ch]))
        else:
            if cur is not None and cur != ('lit', b''):
                return None
            cur = ('sym', v)
    if cur is not None:
        toks.append(cur)
    return toks


class SpecParser:
    """runs the specification tables on a printed token sequence (shapes, not strings)"""

    def __init__(self, specs, roles, canon):
        self.specs, self.roles, self.canon = specs, roles, canon
        self.problems = []

    def shape_of(self, owner, tok):
        if tok[0] == 'lit':
            return Shape.product(len(tok[1]), [sh.mask_of([b]) for b in tok[1]])
        slot, role = SYM[owner][tok[1]]
        return self.canon[role] if role else None

    def row_for(self, which, q, shape, what):
        rows = [r for r in self.specs[which][q] if r.shape is not None and not shape.intersect(r.shape).is_empty()]
        if len(rows) != 1 or not shape.minus(rows[0].shape).is_empty():
            self.problems.append('%s state %s: printed %s is not read as one class (%s)' % (which, q, what, [r.name for r in rows]))
            return None
        return rows[0]

    def end_row(self, which, q):
        for r in self.specs[which][q]:
            if r.name == 'END':
                return r
        return None

    def run_part(self, which, owner, toks, i, q, outer=None):
        """consume tokens of `owner` from position i in table `which`; returns index after the part (where it yields)"""
        while True:
            if i >= len(toks):
                r = self.end_row(which, q)
                if r is None or r.outcome not in ('yield', 'finish', 'default-language'):
                    self.problems.append('%s state %s: end of input not accepted' % (which, q))
                return i
            tok = toks[i]
            if tok[0] == 'sym' and tok[1] in SYM.get(owner, {}):
                slot, role = SYM[owner][tok[1]]
                if role is None:
                    # nested language identifier (tlang): printed by the LanguageIdentifier grammar; handled by the caller's expansion
                    self.problems.append('nested identifier not expanded')
                    return i
                shape = self.canon[role]
                r = self.row_for(which, q, shape, '%s' % role)
                if r is None:
                    return len(toks)
                if r.outcome != 'consume' or r.kw.get('slot') != slot:
                    self.problems.append('%s state %s: a printed %s is %s%s, not consumed into %s' % (which, q, role, r.outcome, (' into ' + r.kw.get('slot')) if r.kw.get('slot') else '', slot))
                    return len(toks)
                q = r.kw.get('next', q)
                i += 1
                continue
            # a token this part does not own: it must end the part
            shape = self.shape_of(owner, tok) if tok[0] == 'lit' else None
            if shape is None and outer is not None and tok[0] == 'sym' and tok[1] in SYM.get(outer, {}) and SYM[outer][tok[1]][1]:
                shape = self.canon[SYM[outer][tok[1]][1]]        # a subtag of the enclosing part: it must end this one
            if shape is None:
                # symbol of another part: cannot happen in a well-formed sentence
                self.problems.append('%s state %s: unexpected %s' % (which, q, tok))
                return len(toks)
            r = self.row_for(which, q, shape, ('literal %r' % tok[1]) if tok[0] == 'lit' else tok[1])
            if r is None:
                return len(toks)
            if r.outcome == 'yield':
                return i
            if which == 'private' or r.outcome in ('consume', 'skip'):
                self.problems.append('%s state %s: the literal %r that starts the next part is %s' % (which, q, tok[1], r.outcome))
                return len(toks)
            self.problems.append('%s state %s: the literal %r is %s instead of ending the part' % (which, q, tok[1], r.outcome))
            return len(toks)


def run_langid(sp, toks, i, outer):
    """a printed language identifier starting at token i through table A.1; -> index where it yields"""
    if i < len(toks) and toks[i] == ('lit', b'und'):
        r = sp.row_for('core', 'L0', Shape.product(3, [sh.mask_of([b]) for b in b'und']), "literal 'und'")
        if r is None or r.outcome != 'skip':
            sp.problems.append("core: the printed 'und' is not read back as the empty language")
        return sp.run_part('core', 'LanguageIdentifier', toks, i + 1, (r.kw.get('next', 'A') if r else 'A'), outer=outer)
    return sp.run_part('core', 'LanguageIdentifier', toks, i, 'L0', outer=outer)


def spec_roundtrip(rep):
    specs, roles = parserules.specs()
    canon = {}
    for name in ('Language', 'Script', 'Region', 'Variant', 'ukey', 'utype', 'uattr', 'tkey', 'tvalue', 'privatetag'):
        canon[name] = canonical_shape(roles[name])
    nsent = 0
    # ---- (1) LanguageIdentifier: (und | language) [script] [region] variant*
    sp = SpecParser(specs, roles, canon)
    lang_sentences = sentences(emitrules.SPEC['LanguageIdentifier'])
    for sent in lang_sentences:
        toks = tokens_of(sent)
        nsent += 1
        if toks is None:
            sp.problems.append('printed sentence cannot be tokenised')
            continue
        run_langid(sp, toks, 0, None)
    rep.ob('roundtrip:langid', 'SPEC-ROUNDTRIP', '-', '-', 'every sentence of the LanguageIdentifier printer grammar is re-read by the parser table into the slots it was printed from',
           not sp.problems, detail='\n'.join(sorted(set(sp.problems))[:5]), how='%d sentences (stars unrolled 0..2) through table A.1' % nsent)
    total = nsent
    # ---- (2) each extension part after its singleton, followed by nothing / by each other singleton
    for owner, which, single, follow in (('UnicodeExtensionList', 'unicode', b'u', [b'x', None]), ('TransformExtensionList', 'transform', b't', [b'u', b'x', None]),
                                         ('PrivateExtensionList', 'private', b'x', [None])):
        sp = SpecParser(specs, roles, canon)
        n = 0
        for sent in sentences(emitrules.SPEC[owner]):
            if not sent:
                continue
            toks = tokens_of(sent)
            if toks is None:
                sp.problems.append('printed sentence cannot be tokenised')
                continue
            # the sentence starts with the empty token before the first '-', then the singleton
            if not (len(toks) >= 2 and toks[0] == ('lit', b'') and toks[1] == ('lit', single)):
                sp.problems.append('%s does not start with "-%s"' % (owner, single.decode()))
                continue
            body = toks[2:]
            # expand a printed tlang into the sentences of the LanguageIdentifier grammar
            variants = [body]
            if any(t == ('sym', 'Option<LanguageIdentifier>') for t in body):
                variants = []
                for ls in lang_sentences[:12]:
                    lt = tokens_of(ls)
                    variants.append([x for t in body for x in (lt if t == ('sym', 'Option<LanguageIdentifier>') else [t])])
            for b in variants:
                for f in follow:
                    n += 1
                    seq = list(b) + ([('lit', f)] if f else [])
                    q = specs[which]['init']
                    i = 0
                    # transform: a leading language identifier is parsed by the core table, then TL
                    if which == 'transform' and seq and seq[0] in (('sym', 'Language'), ('lit', b'und')):
                        first = canon['Language'] if seq[0][0] == 'sym' else Shape.product(3, [sh.mask_of([b]) for b in b'und'])
                        r0 = sp.row_for('transform', 'T0', first, 'tlang language')
                        if r0 is None or r0.outcome != 'subparse':
                            sp.problems.append('transform: a printed tlang does not start the nested identifier parser')
                            continue
                        i = run_langid(sp, seq, 0, owner)
                        q = 'TL'
                    j = sp.run_part(which, owner, seq, i, q)
                    if f is not None and j != len(seq) - 1 and not sp.problems:
                        sp.problems.append('%s: the part does not stop at the following singleton %r' % (which, f))
                    if f is not None and j == len(seq) - 1:
                        # the dispatcher must accept the singleton as the start of that extension
                        r = sp.row_for('dispatch', 'B', Shape.product(1, [sh.mask_of([f[0]])]), 'singleton %r' % f)
                        if r is None or r.outcome != 'call':
                            sp.problems.append('dispatch: the printed singleton %r does not start its extension' % f)
        total += n
        rep.ob('roundtrip:%s' % which, 'SPEC-ROUNDTRIP', '-', '-',
               'every sentence of the %s printer grammar, alone and followed by each extension the printer can put after it, is re-read by the parser tables into the slots it was printed from' % owner,
               not sp.problems, detail='\n'.join(sorted(set(sp.problems))[:5]), how='%d sentences through the tables' % n)
    # ---- (3) the printer's extension order t, u, x is accepted: dispatcher has one state and each singleton row calls its parser
    order = [s[1] for s in emitrules.SPEC['ExtensionsMap'][1]]
    rep.ob('roundtrip:order', 'SPEC-ROUNDTRIP', '-', '-', 'the printer emits transform, unicode, private in that order; private (which consumes to the end) is last', order[-1] == 'PrivateExtensionList',
           detail='printer order %s' % order)
    # ---- (4) validators are idempotent on their own output
    bad = []
    for name, c in canon.items():
        role = roles[name]
        extra = c.minus(role.accept)
        if not extra.is_empty():
            bad.append('%s: canonical text %r is outside the production' % (name, extra.example()))
        ok, why = sh.transforms_agree(c, (role.transform,), ('id',))
        if not ok:
            bad.append('%s: the transform is not the identity on canonical text (%s)' % (name, why))
    rep.ob('roundtrip:idempotent', 'SPEC-IDEMPOTENT', '-', '-', 'for every role the canonical (printed) text is inside the production and re-normalising it changes nothing', not bad, detail='\n'.join(bad[:4]),
           how='%d roles' % len(canon))
    return total


def roundtrip_obligations(prog, rep, with_code=True):
    """the obligations other properties (C12 injectivity, C16, C17, C19) borrow"""
    n = spec_roundtrip(rep)
    if with_code:
        emitrules.check_display(prog, rep)
        for which in ('core', 'dispatch', 'unicode', 'transform', 'private'):
            parserules.check(prog, rep, which, selfread=True)
    return n


def run(tier, replay=None):
    rep = common.new_report('C05', tier, 'other')
    prog = common.program('K0')
    rep.count('configuration', 'K0 (%d bodies)' % len(prog.bodies))
    n = roundtrip_obligations(prog, rep)
    rep.count('printer sentences fed to the parser tables', n)
    rep.floor('printer sentences', n, 100)
    validators.run_all(prog, rep)
    subtag_api.run(prog, rep)
    c10.mutator_obligations(rep, cfgs=('K0', 'K1'), with_getters=False)
    from . import tables
    tables.likely(common.program('K1'), rep)      # maximize/minimize results are table text: it must be canonical to survive the trip
    core = entry.core_parser(prog)
    disp = entry.find_method(prog, 'unic_locale_impl', 'ExtensionsMap', 'try_from_iter')
    c13.exhausted_dispatch(prog, rep, disp)
    entry.check_separators(prog, rep, [('ExtensionsMap::from_bytes', f, set(disp)) for f in entry.find_method(prog, 'unic_locale_impl', 'ExtensionsMap', 'from_bytes')] +
                           [('parse_locale', f, set(core) | set(disp)) for f in entry.find_fn(prog, 'unic_locale_impl', 'parse_locale')] +
                           [('LanguageIdentifier::from_bytes', f, core) for f in entry.find_method(prog, 'unic_langid_impl', 'LanguageIdentifier', 'from_bytes')])
    # values built by the compile-time macros belong to this property's domain as well: the macro witnesses of C16 (cached per tree)
    from . import c16
    c16.witness_family(rep, tier)
    # "consequently canonicalize is idempotent": only because canonicalize is parse-then-print and nothing else (shared with C02 C03 C04)
    from . import c04
    c04.canonicalize_shape(prog, rep)
    rep.explanation = ('Round-trip equality is not executed. Decided: the printers are their grammars (emission automata) and the parsers are their tables (per-state transition tables from MIR); '
                       'every sentence of the printer grammars - all optional parts, lists unrolled 0..2, every extension followed by every extension the printer can put after it - is re-read by the '
                       'tables into the slot each subtag was printed from (this is where the order t,u,x, the positional disjointness of script/region/variant, key/attribute/type, tkey/tvalue/region, '
                       'and "a singleton ends the part" are needed); every validator is the identity on canonical text; "und" is read back as the empty language; "true" is never stored; collections '
                       'have one representation (sorted, duplicate-free, None when empty), so the re-parsed value has equal fields. canonicalize idempotence follows (parse-then-print).')
    rep.assumptions = ['ExtensionsMap::other stays empty (quantifier of the property; C12 shows no library code writes it)', 'BTreeMap keys are distinct, so re-inserting printed entries rebuilds the same map']
    return rep.finish()
