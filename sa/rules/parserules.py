"""PARSE clients: one TableCheck per token-stream parser; obligations per rule."""
from .. import parse, px as pxm, terms
from . import parsetables as pt, entry

RULE_TEXT = {
    'PARSE-TABLE': 'every subtag class is handled as the grammar prescribes in every parser state',
    'PARSE-NODROP': 'every consumed subtag is stored through its validator (nothing is silently dropped or misfiled)',
    'PARSE-NOCLOBBER': 'no parsed value is overwritten by a later one',
    'PARSE-YIELD': 'a singleton (or any subtag the part does not own) ends the part and is left for the caller',
    'PARSE-FLUSH': 'a pending key is stored with its values exactly when the next key, a singleton or the end arrives',
}
# reported only by the properties that need ExtensionsMap to read its own output (C05 C16 C17); for C03 an empty subtag may also be rejected
SELFREAD_TEXT = 'the leading empty subtag of its own Display output is skipped'
_specs = []


def specs():
    if not _specs:
        _specs.append(pt.build_specs())
    return _specs[0]


def locate(prog):
    """the five parser functions, by signature (iterator-of-&[u8] parameter) and result type"""
    out = {}
    core = entry.core_parser(prog)
    if core:
        out['core'] = core[0]
    for n, b in prog.bodies.items():
        s = b.get('sig')
        if not s or not n.startswith('unic_locale_impl::') or b['kind'] != 'AssocFn' or len(s['inputs']) != 1:
            continue
        if not (s['inputs'][0].startswith('&mut std::iter::Peekable<') or s['inputs'][0].startswith('&mut impl Iterator') or s['inputs'][0].startswith('&mut I')):
            continue
        o = s['output']
        for key, ty in (('dispatch', 'ExtensionsMap'), ('unicode', 'UnicodeExtensionList'), ('transform', 'TransformExtensionList'), ('private', 'PrivateExtensionList')):
            if o.startswith('std::result::Result<') and (ty in o.split(',')[0]) and b['impl']['self_ty'].split('::')[-1] == ty:
                out[key] = n
    return out


RESULT_TY = {'core': 'unic_langid_impl::LanguageIdentifier', 'dispatch': 'ExtensionsMap', 'unicode': 'UnicodeExtensionList', 'transform': 'TransformExtensionList',
             'private': 'PrivateExtensionList'}
_cache = {}


def analyse(prog, which):
    key = (id(prog), which)
    if key in _cache:
        return _cache[key]
    fns = locate(prog)
    if which not in fns:
        _cache[key] = None
        return None
    fn = fns[which]
    opaque = set()
    if which in ('transform',):
        opaque = {fns.get('core')} | set(entry.find_method(prog, 'unic_langid_impl', 'LanguageIdentifier', 'try_from_iter'))
        opaque = {x for x in opaque if x}
        # keep the doc-hidden wrapper inlined, the core parser opaque
        opaque = {fns.get('core')}
    if which == 'dispatch':
        opaque = {fns.get(k) for k in ('unicode', 'transform', 'private') if fns.get(k)}
    pa = parse.ParserAnalysis(prog, fn, opaque=opaque)
    slots = pt.Slots(prog, pa, RESULT_TY[which])
    sp, roles = specs()
    sub = {'UnicodeExtensionList': {fns.get('unicode')}, 'TransformExtensionList': {fns.get('transform')}, 'PrivateExtensionList': {fns.get('private')}}
    tc = pt.TableCheck(prog, pa, sp[which], roles, slots, which, flag_param=2 if which == 'core' else None, core_fns={fns.get('core')}, sub_fns=sub).run()
    _cache[key] = (fn, pa, slots, tc)
    return _cache[key]


def check(prog, rep, which, rules=None, keyprefix='parse', selfread=False):
    try:
        res = analyse(prog, which)
    except (pxm.Limit, MemoryError, RecursionError) as ex:
        # fail closed: a parser too branchy to explore within the state budget has no table, hence no verdict in its favour
        rep.ob('%s:%s:explore' % (keyprefix, which), 'PARSE-EXPLORE', which, '-', '%s parser: explored within the state budget' % which, False,
               'INCONCLUSIVE(%s: %s)' % (type(ex).__name__, str(ex)[:200]))
        return None
    if res is None:
        rep.ob('%s:%s:anchor' % (keyprefix, which), 'PARSE-ANCHOR', which, '-', 'parser function for %s found' % which, False, 'ANCHOR-MISSING: no function with the expected iterator signature and result type')
        return None
    fn, pa, slots, tc = res
    b = prog.bodies[fn]
    sp, roles = specs()
    for rule in sorted(RULE_TEXT):
        if rules and rule not in rules:
            continue
        v = tc.viol.get(rule, {})
        lines = []
        wit = None
        site = b['span']
        for (state, row, msg), (w, span) in sorted(v.items(), key=lambda kv: str(kv[0])):
            lines.append('state %s, %s: %s%s' % (state, row, msg, ('   e.g. subtag %s' % w) if w else ''))
            wit = wit or w
            if span:
                site = span
        rep.ob('%s:%s:%s' % (keyprefix, which, rule), rule, fn, site, '%s parser: %s' % (which, RULE_TEXT[rule]), not lines, detail='\n'.join(lines[:8]),
               how='%d steps in %d (head, state) pairs, %d table rows exercised' % (tc.nsteps, len(tc.pairs), len(tc.rows_hit)), witness=wit)
    if selfread and which == 'dispatch':
        v = tc.viol.get('PARSE-SELFREAD', {})
        lines = ['state %s, %s: %s' % (state, row, msg) for (state, row, msg), _ in sorted(v.items(), key=lambda kv: str(kv[0]))]
        rep.ob('%s:%s:PARSE-SELFREAD' % (keyprefix, which), 'PARSE-SELFREAD', fn, b['span'], '%s parser: %s' % (which, SELFREAD_TEXT), not lines, detail='\n'.join(lines[:4]),
               how='first-subtag state of the dispatcher table')
    # every row of the table must have been exercised by some step (else the comparison is vacuous for it)
    allrows = set((q, r.name) for q, rows in sp[which].items() if isinstance(rows, list) and q != 'disjoint' for r in rows)
    reach_states = set(str(q).rstrip('~') for _, q in tc.pairs)
    missing = sorted((q, n) for (q, n) in allrows if q in reach_states and (q, n) not in tc.rows_hit)
    unreached = sorted(set(q for q, rows in sp[which].items() if isinstance(rows, list) and q != 'disjoint') - reach_states)
    rep.ob('%s:%s:coverage' % (keyprefix, which), 'PARSE-COVER', fn, b['span'], '%s parser: every state and row of the specification table is matched by implementation steps' % which,
           not missing and not unreached, detail='states never reached: %s; rows never exercised: %s' % (unreached, missing[:6]))
    # side condition: classes tried in sequence are pairwise disjoint
    for i, (n1, s1) in enumerate(sp[which].get('disjoint', [])):
        for n2, s2 in sp[which]['disjoint'][i + 1:]:
            pass
    return tc
