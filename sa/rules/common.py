"""shared helpers for the property clients"""
from .. import facts, px as pxm, report

TRUSTED = [
    'rustc nightly: type checking, MIR construction (opt-level 0), const evaluation, trait resolution',
    'factgen driver (/verif/driver): faithful printer of MIR/HIR facts',
    'sa/models.py: summaries of std and tinystr 0.7.6 functions (hand-verified against the sources)',
    'spec/*.json: oracles written from the property statements and UTS #35',
]


def checker_cmd(prop, tier):
    return './check %s --tier %s' % (prop, tier)


CFGMAP = {}          # thorough tier, second pass: every configuration is replaced by the all-features workspace build
_programs = {}


def program(config):
    config = CFGMAP.get(config, config)
    if config not in _programs:
        _programs[config] = pxm.Program(facts.load(config))
    return _programs[config]


def new_report(prop, tier, level):
    r = report.Report(prop, tier, level, checker_cmd(prop, tier))
    r.trusted = list(TRUSTED)
    return r
