"""C10 — mutator and getter histories behave like a plain set/map model (DESIGN §4.10).

Decides the invariants and disciplines the model equivalence rests on (not the step-by-step equivalence itself):
  TS-INVARIANT  every `&mut self` method re-establishes sortedness / uniqueness / single empty representation;
  TS-CTOR       every constructor (parsers, from_parts) establishes them;
  TS-ATOMIC     no write to self precedes an Err return;
  TS-NORMALISE  every value inserted by a setter is the validated argument (exact production, parser's normalisation);
                a rejected argument is outside the production;
  TS-EFFECT     the abstract effect of each public mutator is the set / multiset / map operation of the model;
  TS-GETTER     getters validate their argument with the same validator and read the field the setters write."""
import re
from .. import px as pxm, terms, ts, models
from . import common, validators, mutators as mu

EXEMPT_CTORS = {
    'unic_langid_impl::LanguageIdentifier::from_raw_parts_unchecked': 'documented caller contract (unchecked constructor; outside the safe-API quantifier)',
    'unic_locale_impl::Locale::from_raw_parts_unchecked': 'unsafe, documented caller contract',
}


def field_index(facts, tname, pred):
    full, adt = terms.find_adt(facts, ('unic_langid_impl::' + tname) if tname == 'LanguageIdentifier' else tname)
    if adt is None:
        return None
    for i, f in enumerate(adt['variants'][0]['fields']):
        if pred(f):
            return i
    return None


def recv_field(e, st, ev):
    tp = ts.target_place(e, st, ev)
    if tp is None:
        return None
    ap = terms.access_path(('ref', tp))
    if ap is None or ap[0] != 1:
        return None
    return terms.strip_some(ap[1])


def recv_is_field(e, st, callterm, field):
    try:
        tp = models.vec_place(e, st, callterm[2][0])
    except Exception:
        return False
    ap = terms.access_path(('ref', tp)) if tp is not None else None
    return bool(ap and ap[0] == 1 and terms.strip_some(ap[1]) == field)


def effects_of(e, s, has_loops):
    """list of (field path below self, op, args, event) for one path"""
    out = []
    for ev in (s.state.events if not has_loops else s.events):
        if ev[0] == 'store':
            ap = terms.access_path(('ref', ev[1]))
            if ap and ap[0] == 1:
                out.append((terms.strip_some(ap[1]), 'assign', (ev[2],), ev))
        elif ev[0] == 'call' and ev[1] in e.p.bodies:
            # an opaque repository helper that gets `&mut` access to (a field of) self: an effect the model does not know
            shared = ev[9] if len(ev) > 9 else ()
            for ai, a in enumerate(ev[2]):
                if ai < len(shared) and shared[ai]:
                    continue
                try:
                    tp = models.vec_place(e, s.state, a) if a[0] in ('ref', 'pure', 'call') else None
                except Exception:
                    tp = None
                ap = terms.access_path(('ref', tp)) if tp is not None else None
                if ap and ap[0] == 1:
                    out.append((terms.strip_some(ap[1]), 'opaque:' + ev[1].split('::')[-1], tuple(ev[2]), ev))
                    break
        elif ev[0] == 'call' and models.MUTATOR_RE.search(ev[1]) and ev[2] and ev[1].split('::')[-1] not in ts.NOT_OPS:
            if re.search(r'option::Option::<T>::(take|replace|insert)$|mem::(replace|take)$', ev[1]):
                continue      # modelled by PX as a store of the new value (the 'assign' effect above); not a second effect
            fp = recv_field(e, s.state, ev)
            if fp is not None:
                out.append((fp, ev[1].split('::')[-1], tuple(ev[2][1:]), ev))
    return out


def search_facts(e, s, fieldpath):
    """outcome of searches (binary_search, or iter().position(|e| *e == key)) on a field along the path: list of ('pos'|'neg', call)"""
    out = []
    for k, v in s.state.facts.items():
        if k[0] == 'tag' and ts.is_search(k[1]):
            c = k[1]
            ap = terms.access_path(c[2][0]) if c[2] else None
            if ap and ap[0] == 1 and terms.strip_some(ap[1]) == fieldpath:
                out.append((v, c))
        elif k[0] == 'tag' and ts.is_position(k[1]):
            pp = ts.position_parts(e, s.state, k[1])
            ap = terms.access_path(('ref', pp[0])) if pp and pp[0] is not None else None
            if ap and ap[0] == 1 and terms.strip_some(ap[1]) == fieldpath:
                out.append((v, k[1]))
    return out


def searched_key(e, st, call):
    """the key a search call looks for"""
    if ts.is_position(call):
        pp = ts.position_parts(e, st, call)
        return pp[1] if pp else None
    snap = call[4] if len(call) > 4 else None
    return ts.strip_ref(snap[1]) if snap and len(snap) > 1 else None


def contains_fact(e, s, fieldpath):
    """value of a decided `contains(field, x)` on the path, if any"""
    for k, v in s.state.facts.items():
        if k[0] == 'pure' and k[1].split('::')[-1] == 'contains' and len(k[2]) == 2:
            ap = terms.access_path(k[2][0])
            if ap and ap[0] == 1 and terms.strip_some(ap[1])[:len(fieldpath)] == fieldpath:
                return v
    return None


def arg_is_validated(e, st, v, role, roles):
    return mu.validated_shape(e, st, v, role, roles)


def spec_effect(prog, e, segs, fn, ty, name, rep, roles, has_loops):
    """TS-EFFECT for the known public mutators; returns True when a specification exists for this method"""
    facts = prog.facts
    b = prog.bodies[fn]
    bad = []
    kind = None
    rets = [s for s in segs if s.kind == 'return']

    def one_effect(s, field, op):
        ef = effects_of(e, s, has_loops)
        return ef, [x for x in ef if x[0] == field and x[1] == op]

    if ty == 'PrivateExtensionList' and name in ('add_tag', 'remove_tag', 'clear_tags') or ty == 'UnicodeExtensionList' and name in ('set_attribute', 'remove_attribute', 'clear_attributes'):
        vecf = field_index(facts, ty, lambda f: terms.norm_ty(f['ty']).startswith('std::vec::Vec<'))
        field = (vecf,)
        role = 'privatetag' if ty == 'PrivateExtensionList' else 'uattr'
        multiset = ty == 'PrivateExtensionList'
        if name.startswith('clear_'):
            kind = 'clear'
            for s in rets:
                ef = effects_of(e, s, has_loops)
                ok = len(ef) == 1 and ef[0][0] == field and (ef[0][1] == 'clear' or (ef[0][1] == 'assign' and ts.of_value(e, s.state, ef[0][2][0]).why == ['fresh empty']))
                if not ok:
                    bad.append('expected exactly one clear of %s, found %s' % (role, [(x[0], x[1]) for x in ef]))
        elif name in ('add_tag', 'set_attribute'):
            kind = 'insert'
            for s in rets:
                oc = mu.outcome_of(s.ret)
                ef = effects_of(e, s, has_loops)
                if oc == 'err':
                    bad.extend(mu.rejected_shape(e, s, role, roles))
                    continue
                adds = [x for x in ef if x[0] == field and x[1] in ('push', 'insert')]
                others = [x for x in ef if not (x[0] == field and x[1] in ('push', 'insert', 'sort', 'sort_unstable', 'dedup'))]
                if others:
                    bad.append('unexpected effect %s' % [(x[0], x[1]) for x in others])
                sf = search_facts(e, s, field)
                present = bool(sf and sf[-1][0] == 'pos') or contains_fact(e, s, field) is True
                if not multiset and present:
                    if adds:
                        bad.append('an attribute that is already present is inserted again')
                    continue
                if len(adds) != 1:
                    bad.append('a successful call adds %d elements (expected exactly one)' % len(adds))
                    continue
                val = adds[0][2][-1]
                bad.extend(arg_is_validated(e, s.state, val, role, roles))
        else:
            kind = 'remove'
            for s in rets:
                oc = mu.outcome_of(s.ret)
                ef = effects_of(e, s, has_loops)
                if oc == 'err':
                    bad.extend(mu.rejected_shape(e, s, role, roles))
                    if ef:
                        bad.append('error path has effects')
                    continue
                sf = search_facts(e, s, field)
                if oc == 'ok' and not multiset:
                    # set idiom: retain(|a| a != value) on a duplicate-free list removes exactly the one occurrence; the result is computed
                    ret_ops = [x for x in ef if x[0] == field and x[1] == 'retain']
                    if len(ef) == 1 and len(ret_ops) == 1:
                        clos = ret_ops[0][2][0] if ret_ops[0][2] else None
                        caps = clos[2] if clos and clos[0] == 'closure' else ()
                        okc = False
                        for c in caps:
                            cv = e.deref_value(s.state, c) if c[0] in ('ref', 'cref') else c
                            if not arg_is_validated(e, s.state, cv, role, roles):
                                okc = True
                        if not okc:
                            bad.append('retain does not filter on the validated argument')
                        continue
                if oc == 'ok' and sf:
                    # the result is computed from the search (`position.is_some()`): classify the path by the search outcome
                    r0 = s.ret[3][0] if s.ret[0] == 'adt' and s.ret[3] else None
                    mentions = r0 is not None and bool(terms.find_terms(r0, lambda t: (ts.is_search(t) or ts.is_position(t)) and t == sf[-1][1]))
                    if not mentions:
                        bad.append('the result is not derived from the search for the validated argument: %s' % e.short(r0, 100))
                        continue
                    oc = 'ok-true' if sf[-1][0] == 'pos' else 'ok-false'
                if oc == 'ok-false':
                    if ef:
                        bad.append('reports "not present" but modifies the list: %s' % [(x[0], x[1]) for x in ef])
                    if not (sf and sf[-1][0] == 'neg'):
                        bad.append('reports "not present" without a failed search of the validated argument')
                elif oc == 'ok-true':
                    rem = [x for x in ef if x[0] == field and x[1] == 'remove']
                    if len(ef) != 1 or len(rem) != 1:
                        bad.append('a successful removal must remove exactly one element at the found position; effects: %s' % [(x[0], x[1]) for x in ef])
                        continue
                    idx = rem[0][2][0]
                    si = ts.search_index(idx)
                    if si is None and isinstance(idx, tuple) and idx and idx[0] == 'pos' and ts.is_position(idx[1]):
                        si = (idx[1], 'pos')
                    if not (si and si[1] == 'pos' and sf and sf[-1][1] == si[0]):
                        bad.append('the removed index is not the position found by the search')
                    else:
                        keyv = searched_key(e, s.state, si[0])
                        if keyv is None or arg_is_validated(e, s.state, keyv, role, roles):
                            bad.append('the searched key is not the validated argument')
                else:
                    bad.append('unexpected outcome %s' % oc)
    elif ty in ('UnicodeExtensionList', 'TransformExtensionList') and re.match(r'^(set|remove)_(keyword|tfield)$|^clear_(keywords|tfields)$', name):
        mapf = field_index(facts, ty, lambda f: 'BTreeMap<' in f['ty'])
        field = (mapf,)
        kr, vr = ('ukey', 'utype') if ty == 'UnicodeExtensionList' else ('tkey', 'tvalue')
        if name.startswith('clear_'):
            kind = 'clear'
            for s in rets:
                ef = effects_of(e, s, has_loops)
                if not (len(ef) == 1 and ef[0][0] == field and ef[0][1] == 'clear'):
                    bad.append('expected exactly one clear of the map, found %s' % [(x[0], x[1]) for x in ef])
        elif name.startswith('set_'):
            kind = 'map-insert'
            nok = 0
            for s in rets:
                oc = mu.outcome_of(s.ret)
                ef = effects_of(e, s, has_loops)
                if oc == 'err':
                    if not ef:
                        # either the key or some value was rejected
                        pass
                    continue
                nok += 1
                ins = [x for x in ef if x[0] == field and x[1] == 'insert']
                if len(ef) != 1 or len(ins) != 1:
                    bad.append('a successful call must perform exactly one map insertion; effects: %s' % [(x[0], x[1]) for x in ef])
                    continue
                k, v = ins[0][2][0], ins[0][2][1]
                bad.extend(arg_is_validated(e, s.state, k, kr, roles))
                # values: pos(collect(filter_map(iter(param 3), closure)))
                vv = v
                ok = vv[0] == 'pos' and vv[1][0] == 'pure' and vv[1][1].endswith('::collect')
                fm = vv[1][2][0] if ok else None
                ok = ok and fm[0] == 'pure' and fm[1].endswith('::filter_map') and len(fm[2]) == 2
                if ok:
                    src, clos = fm[2]
                    sap = terms.access_path(src[1] if src[0] == 'sliceiter' else src)
                    if not (sap and sap[0] == 3):
                        bad.append('stored values do not come from the values argument')
                    bad.extend(mu.check_values_closure(prog, clos, vr, roles))
                    if s.state.facts.get(('tag', vv[1])) != 'pos':
                        bad.append('values stored without checking that every one validated')
                elif local_vector_of_validated(prog, e, segs, v, vr, roles, bad):
                    pass
                else:
                    bad.append('stored values are not the validated, filtered argument list: INCONCLUSIVE(%s)' % e.short(v, 160))
            if not nok:
                bad.append('no successful path')
            # error path on bad key: production check
            for s in rets:
                if mu.outcome_of(s.ret) == 'err' and not [k for k in s.state.facts if k[0] == 'tag']:
                    bad.extend(mu.rejected_shape(e, s, kr, roles))
        else:
            kind = 'map-remove'
            for s in rets:
                oc = mu.outcome_of(s.ret)
                ef = effects_of(e, s, has_loops)
                if oc == 'err':
                    bad.extend(mu.rejected_shape(e, s, kr, roles))
                    continue
                rem = [x for x in ef if x[0] == field and x[1] == 'remove']
                if len(ef) != 1 or len(rem) != 1:
                    bad.append('a successful call must perform exactly one map removal; effects: %s' % [(x[0], x[1]) for x in ef])
                    continue
                bad.extend(arg_is_validated(e, s.state, rem[0][2][0], kr, roles))
                # result = whether something was removed
                r = s.ret[3][0]
                rcall = [ev for ev in ef if ev[0] == field and ev[1] == 'remove']
                rtags = [v for k, v in s.state.facts.items() if k[0] == 'tag' and k[1][0] == 'call' and k[1][1].endswith('::remove') and k[1][2] and recv_is_field(e, s.state, k[1], field)]
                const_ok = (r == ('int', 1) and rtags == ['pos']) or (r == ('int', 0) and rtags == ['neg'])      # match map.remove(k) { Some(_) => true, None => false }
                if not const_ok and not (r[0] == 'pred' and r[1] == 'tag' and r[3] == 'pos' and r[2][0] == 'call' and r[2][1].endswith('::remove')) and not (r[0] == 'pure' and r[1].endswith('is_some')):
                    bad.append('result is not "an entry was removed": %s' % e.short(r, 120))
    elif ty == 'LanguageIdentifier' and name in ('set_variants', 'clear_variants'):
        vf = field_index(facts, ty, lambda f: 'Variant' in f['ty'])
        field = (vf,)
        kind = 'assign'
        for s in rets:
            ef = effects_of(e, s, has_loops)
            st_ = [x for x in ef if x[0] == field and x[1] == 'assign']
            if len(ef) != 1 or len(st_) != 1:
                bad.append('expected exactly one assignment to variants; effects: %s' % [(x[0], x[1]) for x in ef])
                continue
            v = st_[0][2][0]
            if name == 'clear_variants':
                if not (v[0] == 'adt' and v[2] == 'None'):
                    bad.append('clear_variants stores %s' % e.short(v, 100))
            else:
                if v[0] == 'adt' and v[2] == 'None':
                    continue
                # Some(sorted+deduped copy of the argument)
                base = v
                for _ in range(10):
                    if base[0] == 'adt' and base[2] == 'Some':
                        base = base[3][0]
                    elif base[0] == 'pure' and base[2]:
                        if base[1].endswith('::to_vec') or base[1].endswith('::to_owned'):
                            break
                        base = base[2][0]
                    elif base[0] == 'mut':
                        base = base[1]
                    elif base[0] == 'cref':
                        base = base[1]
                    else:
                        break
                ap = terms.access_path(base[2][0]) if base[0] == 'pure' and base[2] else None
                if not (ap and ap[0] == 2):
                    # a summarised helper (loops inside): the parameter its elements are copied from, mapped to the call's argument
                    src = ts.content_source(e, v)
                    ap = terms.access_path(src) if src is not None else None
                if not (ap and ap[0] == 2):
                    bad.append('stored variants are not a copy of the argument: %s' % e.short(v, 160))
    elif ty == 'TransformExtensionList' and name in ('set_tlang', 'clear_tlang'):
        tf = field_index(facts, ty, lambda f: 'LanguageIdentifier' in f['ty'])
        field = (tf,)
        kind = 'assign'
        for s in rets:
            ef = effects_of(e, s, has_loops)
            st_ = [x for x in ef if x[0] == field and x[1] == 'assign']
            if len(ef) != 1 or len(st_) != 1:
                bad.append('expected exactly one assignment to tlang; effects: %s' % [(x[0], x[1]) for x in ef])
                continue
            v = st_[0][2][0]
            if name == 'clear_tlang' and not (v[0] == 'adt' and v[2] == 'None'):
                bad.append('clear_tlang stores %s' % e.short(v, 100))
            if name == 'set_tlang' and not (v[0] == 'adt' and v[2] == 'Some' and v[3][0] == ('param', 2)):
                bad.append('set_tlang stores %s, not Some(argument)' % e.short(v, 100))
    if kind is None:
        return False
    if e.unmodelled:
        bad.append('INCONCLUSIVE(unmodelled callee %s)' % list(e.unmodelled)[0])
    rep.ob('effect:%s::%s' % (ty, name), 'TS-EFFECT', fn, b['span'], '%s::%s has the %s effect of the set/multiset/map model, on the validated argument' % (ty, name, kind),
           not bad, detail='\n'.join(sorted(set(bad))[:6]), how='%d exits' % len(rets))
    return True


FIELD_ROLES = {
    # type -> field type prefix -> roles a stored TinyAsciiStr may have
    'UnicodeExtensionList': {'std::vec::Vec<': ('uattr',), 'std::collections::BTreeMap<': ('ukey', 'utype')},
    'TransformExtensionList': {'std::collections::BTreeMap<': ('tkey', 'tvalue')},
    'PrivateExtensionList': {'std::vec::Vec<': ('privatetag',)},
}


def generic_provenance(prog, e, segs, fn, ty, rep, roles, has_loops, recv=1):
    """TS-PROV for a writer without an effect specification: no text reaches the extension lists without its role's validator"""
    b = prog.bodies[fn]
    fr = FIELD_ROLES.get(ty)
    if not fr:
        return
    fs = terms.struct_fields(prog.facts, ty) or []
    sig = b.get('sig') or {'inputs': []}
    rawparams = set(i + 1 for i, t in enumerate(sig['inputs']) if re.search(r'TinyAsciiStr|\[u8\]|\bstr\b|Vec<|BTreeMap<', t) and i + 1 != recv)
    bad = []
    neff = 0
    for s in segs:
        if s.kind != 'return':
            continue
        for fp, op, args, ev in effects_of(e, s, has_loops):
            if not fp or not isinstance(fp[0], int) or fp[0] >= len(fs):
                continue
            fty = terms.norm_ty(fs[fp[0]]['ty'])
            rl = None
            for pref, r in fr.items():
                if fty.startswith(pref):
                    rl = r
            if rl is None:
                continue
            neff += 1
            if op.startswith('opaque:'):
                bad.append('INCONCLUSIVE(%s is handed to the helper %s)' % (fs[fp[0]]['name'], op[7:]))
                continue
            if op in ('clear', 'remove', 'retain', 'sort', 'sort_unstable', 'dedup', 'pop', 'truncate', 'take', 'swap_remove', 'drain', 'reverse'):
                continue
            for a in args:
                for t in terms.find_terms(a, lambda t: t[0] == 'tiny'):
                    if all(mu.validated_shape(e, s.state, t, r, roles, shapes=s.shapes) for r in rl):
                        bad.append('%s stores text that is not validated as %s: %s' % (op, ' / '.join(rl), e.short(t, 100)))
                for t in terms.find_terms(a, lambda t: t[0] == 'param' and t[1] in rawparams):
                    bad.append('%s stores (part of) argument %d without validation' % (op, t[1]))
    rep.ob('prov:%s::%s' % (ty, fn.split('::')[-1]), 'TS-PROV', fn, b['span'], '%s::%s stores only text validated for its role' % (ty, fn.split('::')[-1]), not bad,
           detail='\n'.join(sorted(set(bad))[:4]), how='%d effects on text-carrying fields' % neff)


def local_vector_of_validated(prog, e, segs, v, role, roles, bad):
    """alternative idiom for the values of a map insertion: a local vector filled by a loop over the values argument, every push
    being the validated (and not 'true') element; -> True when `v` is such a vector (problems appended to bad)"""
    x = v
    while x[0] in ('mut', 'cref'):
        x = x[1]
    if not (x[0] == 'lv' and isinstance(x[1], tuple) and len(x[1]) == 1):
        return False
    local = x[1][0]
    npush = 0
    its = set()
    for s in segs:
        for ev in s.events:
            if ev[0] == 'next':
                its.add(ev[1])
            if ev[0] == 'call' and ev[1].endswith('::push') and ev[2]:
                tp = models.vec_place(e, s.state, ev[2][0])
                if tp == ('L', 1, local):
                    npush += 1
                    bad.extend(mu.validated_shape(e, s.state, ev[2][1], role, roles, shapes=s.shapes))
            elif ev[0] == 'call' and models.MUTATOR_RE.search(ev[1]) and ev[1].split('::')[-1] not in ts.NOT_OPS and ev[2] and models.vec_place(e, s.state, ev[2][0]) == ('L', 1, local):
                bad.append('the value list is modified by %s' % ev[1].split('::')[-1])
    if not npush:
        return False
    # the loop must run over the values argument
    src_ok = False
    for s in segs:
        for ev in s.events:
            if ev[0] == 'def' and ev[1] in its and terms.involves_param(ev[2], 3):
                src_ok = True
    if not src_ok:
        for it in its:
            if it[0] == 'L':
                for s in segs:
                    for ev in s.events:
                        if ev[0] == 'def' and ev[2][0] in ('sliceiter', 'pure', 'param', 'ref') and terms.involves_param(ev[2], 3) \
                                and (ev[2][0] != 'pure' or ev[2][1].split('::')[-1] in ('into_iter', 'iter')):
                            src_ok = True
    if not src_ok:
        bad.append('the loop that fills the value list does not run over the values argument')
    return True


GETTERS = {
    # (type, method) -> (field predicate, role of the argument (None: the argument is already a validated subtag value), lookup op)
    ('LanguageIdentifier', 'has_variant'): (lambda f: 'Variant' in f['ty'], None, 'contains'),
    ('UnicodeExtensionList', 'has_attribute'): (lambda f: terms.norm_ty(f['ty']).startswith('std::vec::Vec<'), 'uattr', 'contains'),
    ('PrivateExtensionList', 'has_tag'): (lambda f: terms.norm_ty(f['ty']).startswith('std::vec::Vec<'), 'privatetag', 'contains'),
    ('UnicodeExtensionList', 'keyword'): (lambda f: 'BTreeMap<' in f['ty'], 'ukey', 'get'),
    ('TransformExtensionList', 'tfield'): (lambda f: 'BTreeMap<' in f['ty'], 'tkey', 'get'),
}


def getters(prog, rep, roles):
    n = 0
    facts = prog.facts
    for (ty, name), (pred, role, op) in sorted(GETTERS.items(), key=lambda kv: kv[0]):
        fns = [f for f, b in prog.bodies.items() if b['kind'] == 'AssocFn' and b.get('impl') and not b['impl']['trait'] and b['impl']['self_ty'].split('::')[-1] == ty and f.endswith('::' + name)
               and f.startswith(mu.TYPES.get(ty, '') + '::')]
        for fn in fns:
            n += 1
            b = prog.bodies[fn]
            fi = field_index(facts, ty, pred)
            e = pxm.PX(prog)
            segs = e.explore(fn)
            bad = []
            nok = 0
            for s in segs:
                if s.kind != 'return':
                    bad.append('path ends in %s' % s.kind)
                    continue
                oc = mu.outcome_of(s.ret)
                if oc == 'err':
                    bad.extend(mu.rejected_shape(e, s, role, roles))
                    continue
                nok += 1
                if role is None:
                    # the argument is a subtag value: no validation; an absent list answers false, a present one is searched for exactly the argument
                    present = None
                    for k, v in s.state.facts.items():
                        if k[0] == 'tag':
                            ap = terms.access_path(k[1])
                            if ap and ap[0] == 1 and terms.strip_some(ap[1]) == (fi,):
                                present = v
                    key = None
                    for ev in s.state.events:
                        if ev[0] != 'call' or not ev[2]:
                            continue
                        lastn = ev[1].split('::')[-1]
                        if lastn in ('contains', 'binary_search') and len(ev[2]) == 2:
                            ap = terms.access_path(ev[2][0])
                            if ap and ap[0] == 1 and terms.strip_some(ap[1])[:1] == (fi,):
                                key = ts.strip_ref(e.deref_value(s.state, ev[2][1]) if ev[2][1][0] == 'ref' else ev[2][1])
                        elif lastn in ('any', 'position'):
                            callterm = ('call', ev[1], ev[2], 0)
                            pp = ts.position_parts(e, s.state, callterm)
                            ap = terms.access_path(('ref', pp[0])) if pp and pp[0] is not None else None
                            if ap and ap[0] == 1 and terms.strip_some(ap[1])[:1] == (fi,):
                                key = ts.strip_ref(pp[1])
                    empty_const_search = False
                    if key is None and present == 'neg':
                        # `variants().any(..)` with the accessor handing out `&[]` for an absent list: a search over a constant empty slice is `false`
                        for ev in s.state.events:
                            if ev[0] == 'call' and ev[1].split('::')[-1] in ('any', 'position', 'contains') and ev[2]:
                                itv = ev[2][0]
                                for _ in range(3):
                                    if itv[0] in ('ref', 'cref'):
                                        try:
                                            itv = e.deref_value(s.state, itv)
                                        except Exception:
                                            break
                                sj = itv[1] if itv[0] == 'sliceiter' else None
                                if sj is not None and (sj[0] == 'CONST' or (sj[0] == 'P' and sj[1][0] == 'ref' and sj[1][1][0] in ('MEM', 'STR') and not sj[1][1][1])
                                                       or (sj[0] == 'P' and sj[1][0] == 'cref' and sj[1][1][0] == 'array' and not sj[1][1][1])):
                                    empty_const_search = True
                    if key is None:
                        if not (present == 'neg' and (s.ret == ('int', 0) or empty_const_search)):
                            bad.append('a path answers without looking the argument up in the list (and the list is not known to be absent)')
                    elif key != ('param', 2):
                        bad.append('the list is searched for %s, not for the argument' % e.short(key, 100))
                    continue
                ops = (op, 'binary_search') if op == 'contains' else (op,)
                calls = [ev for ev in s.state.events if ev[0] == 'call' and ev[1].split('::')[-1] in ops and ev[2]]
                hit = None
                for ev in calls:
                    ap = terms.access_path(ev[2][0])
                    if ap and ap[0] == 1 and terms.strip_some(ap[1])[:1] == (fi,):
                        hit = ev
                if hit is None:
                    bad.append('no %s on the field the setters write' % op)
                    continue
                bad.extend(arg_is_validated(e, s.state, e.deref_value(s.state, hit[2][1]) if hit[2][1][0] in ('ref', 'cref') else hit[2][1], role, roles))
                if op == 'get':
                    # what is handed back lists the values found under the key (all of them, stored order), or nothing when the key is absent
                    pay = s.ret[3][0] if s.ret[0] == 'adt' and s.ret[2] == 'Ok' and s.ret[3] else None
                    x = pay
                    for _ in range(6):
                        if x is not None and x[0] == 'pure' and x[1].split('::')[-1] in ('map', 'copied', 'cloned') and x[2]:
                            if x[1].split('::')[-1] == 'map' and len(x[2]) == 2 and not emit_transparent(prog, e, s, x[2][1]):
                                x = None
                                break
                            x = x[2][0]
                        else:
                            break
                    okv = False
                    if x is not None and x[0] == 'sliceiter':
                        sj = x[1]
                        const_empty = sj[0] == 'CONST' or (sj[0] == 'P' and sj[1][0] in ('ref', 'cref') and isinstance(sj[1][1], tuple) and sj[1][1] and sj[1][1][0] in ('MEM', 'STR', 'array') and not sj[1][1][1])
                        found = bool(terms.find_terms(sj, lambda t: t[0] == 'pos' and t[1][0] in ('call', 'pure') and t[1][1].split('::')[-1] == 'get' and t[1] == ('pure', hit[1], tuple(t[1][2])) or
                                                      (t[0] == 'pos' and t[1][0] in ('call', 'pure') and t[1][1] == hit[1])))
                        gt = [v for k, v in s.state.facts.items() if k[0] == 'tag' and k[1][0] in ('call', 'pure') and k[1][1] == hit[1]]
                        okv = (found and gt == ['pos']) or (const_empty and gt == ['neg'])
                    if not okv:
                        bad.append('the values handed back are not exactly the list stored under the key (or nothing for an absent key): %s' % e.short(pay, 140))
            if not nok:
                bad.append('no successful path')
            rep.ob('getter:%s::%s' % (ty, name), 'TS-GETTER', fn, b['span'], ('%s::%s validates its argument as a %s and looks it up in the field the setters write' % (ty, name, role)) if role else ('%s::%s looks exactly its argument up in the list the setters write' % (ty, name)),
                   not bad, detail='\n'.join(sorted(set(bad))[:4]), how='%d paths' % len(segs))
    return n


LISTINGS = {
    # (type, public accessor) -> role of the elements it must list, all of them, in stored order
    ('LanguageIdentifier', 'variants'): 'Option<Box<[Variant]>>.elem',
    ('UnicodeExtensionList', 'attributes'): 'Vec<TinyAsciiStr<8>>.elem',
    ('UnicodeExtensionList', 'keyword_keys'): 'BTreeMap<TinyAsciiStr<4>,Vec<TinyAsciiStr<8>>>.keys.elem',
    ('TransformExtensionList', 'tfield_keys'): 'BTreeMap<TinyAsciiStr<4>,Vec<TinyAsciiStr<8>>>.keys.elem',
    ('PrivateExtensionList', 'tags'): 'Vec<TinyAsciiStr<8>>.elem',
}


def listing_getters(prog, rep):
    """TS-LISTING: the accessors that list a collection return an iterator over exactly that field: every element, stored order, at most a
    projection to the element's text (no skip / rev / take / filter / step_by, no other field)"""
    from .. import emit
    n = 0
    for (ty, name), want in sorted(LISTINGS.items()):
        crate = mu.TYPES.get(ty, 'unic_locale_impl')
        fns = [f for f, b in prog.bodies.items() if f.startswith(crate + '::') and b['kind'] == 'AssocFn' and b.get('impl') and not b['impl']['trait']
               and b['impl']['self_ty'].split('::')[-1] == ty and f.endswith('::' + name)]
        for fn in fns:
            n += 1
            b = prog.bodies[fn]
            full, adt = terms.find_adt(prog.facts, b['impl']['self_ty'])
            bad = []
            try:
                em = emit.Emission(prog, fn, full)
            except pxm.Limit as ex:
                rep.ob('listing:%s::%s' % (ty, name), 'TS-LISTING', fn, b['span'], 'accessor explored', False, 'INCONCLUSIVE(%s)' % ex)
                continue
            nret = 0
            for s in em.segs:
                if s.kind != 'return':
                    bad.append('path ends in %s' % s.kind)
                    continue
                nret += 1
                items = em.iter_items(s.state, s.ret)
                if items is None:
                    bad.append('INCONCLUSIVE(returned iterator %s)' % em.e.short(s.ret, 140))
                    continue
                if items == ('seq', []):
                    # nothing listed: only when the (optional) collection is known to be absent on this path
                    absent = any(k[0] == 'tag' and v == 'neg' and (terms.access_path(k[1]) or (None,))[0] == 1 for k, v in s.state.facts.items())
                    if not absent:
                        bad.append('lists nothing although the collection may hold elements')
                    continue
                if not (items[0] == 'star' and items[1][0] == 'val'):
                    bad.append('does not list one collection element by element: %s' % (items,))
                    continue
                r = em.role_of(s.state, items[1][1])
                nm = em.role_name(r) if r is not None else None
                if nm != want:
                    bad.append('lists %s, expected the elements of %s' % (nm, want))
            if e_unmodelled(em):
                bad.append('INCONCLUSIVE(unmodelled callee %s)' % e_unmodelled(em))
            rep.ob('listing:%s::%s' % (ty, name), 'TS-LISTING', fn, b['span'], '%s::%s lists every element of its collection, in stored order' % (ty, name), not bad and nret > 0,
                   detail='\n'.join(sorted(set(bad))[:4]), how='%d paths' % nret)
    # tlang(): a view of the tlang field itself
    fi = field_index(prog.facts, 'TransformExtensionList', lambda f: 'LanguageIdentifier' in f['ty'])
    for fn in [f for f, b in prog.bodies.items() if f.startswith('unic_locale_impl::') and b['kind'] == 'AssocFn' and b.get('impl') and not b['impl']['trait']
               and b['impl']['self_ty'].split('::')[-1] == 'TransformExtensionList' and b.get('sig') and b['sig']['output'].startswith('std::option::Option<&') and 'LanguageIdentifier' in b['sig']['output']]:
        n += 1
        b = prog.bodies[fn]
        e = pxm.PX(prog)
        bad = []
        segs = e.explore(fn)
        for s in segs:
            if s.kind != 'return':
                bad.append('path ends in %s' % s.kind)
                continue
            ap = terms.access_path(s.ret)
            tag = [v for k, v in s.state.facts.items() if k[0] == 'tag' and (terms.access_path(k[1]) or (None, ()))[0] == 1 and terms.strip_some((terms.access_path(k[1]) or (None, ()))[1]) == (fi,)]
            if ap and ap[0] == 1 and terms.strip_some(ap[1]) == (fi,):
                continue
            if s.ret[0] == 'adt' and s.ret[2] == 'None' and tag == ['neg']:
                continue
            if s.ret[0] == 'adt' and s.ret[2] == 'Some' and tag == ['pos']:
                ap2 = terms.access_path(s.ret[3][0])
                if ap2 and ap2[0] == 1 and terms.strip_some(ap2[1]) == (fi,):
                    continue
            bad.append('does not return a view of the tlang field: %s' % e.short(s.ret, 120))
        rep.ob('listing:TransformExtensionList::%s' % fn.split('::')[-1], 'TS-LISTING', fn, b['span'], 'TransformExtensionList::%s returns the stored tlang (None iff absent)' % fn.split('::')[-1],
               not bad and bool(segs), detail='\n'.join(sorted(set(bad))[:3]))
    return n


def emit_transparent(prog, e, s, clos):
    """|x| x.as_str() / x.as_ref(): a projection of the element to its own text"""
    probe = ('ref', ('T', ('GP', 0), ('e', 'gp', 0)))
    try:
        outs = e.call_closure(s.state.copy(), clos, [probe])
    except Exception:
        return False
    if len(outs) != 1:
        return False
    v = outs[0][1]
    for _ in range(10):
        if v == probe or (v[0] == 'slice' and v[1] == probe[1]):
            return True
        if v[0] in ('ref', 'cref') and isinstance(v[1], tuple):
            if v[0] == 'ref' and v[1] == probe[1]:
                return True
            v = v[1]
        elif v[0] == 'pure' and v[1].split('::')[-1] in ('deref', 'as_str', 'as_ref', 'borrow', 'as_deref', 'clone') and len(v[2]) == 1:
            v = v[2][0]
        else:
            return False
    return False


def e_unmodelled(em):
    un = [u for u in em.e.unmodelled if not re.search(r'(::fmt|write_str|write_char|write_fmt)$', u)]
    return un[0] if un else None


def is_empty_getters(prog, rep):
    """`is_empty(&self)` of the extension types answers true exactly when every field that some library code can write is empty (a field nobody writes
    stays empty and may be left out - C12 ITEM-UNPRINTED).  Decided path by path: a path that answers true knows every such field to be empty, a path
    that answers false knows one of them to be non-empty, a path that answers with the emptiness of one field knows all the others to be empty."""
    from . import c12
    c12.FACTS[0] = prog.facts
    n = 0
    for ty in ('ExtensionsMap', 'UnicodeExtensionList', 'TransformExtensionList', 'PrivateExtensionList'):
        full, adt = terms.find_adt(prog.facts, ty)
        if adt is None:
            continue
        fs = adt['variants'][0]['fields']
        fns = [f for f, b in prog.bodies.items() if f.startswith('unic_locale_impl::') and b['kind'] == 'AssocFn' and b.get('impl') and not b['impl']['trait']
               and b['impl']['self_ty'].split('::')[-1] == ty and f.endswith('::is_empty') and b['sig'] and b['sig']['output'] == 'bool']
        written = set()
        for i in range(len(fs)):
            for fn2, b2 in prog.bodies.items():
                if not fn2.startswith('unic_locale_impl::') or (b2.get('impl') and b2['impl'].get('derived')) or not b2.get('mir'):
                    continue
                for blk in b2['mir']['blocks']:
                    if blk['cleanup']:
                        continue
                    for st_ in blk['stmts']:
                        if st_['k'] == 'assign' and (c12.mentions_field(b2, st_['lhs'], ty, i) or
                                                     (st_['rv']['k'] in ('ref', 'rawptr') and st_['rv'].get('mut') and c12.mentions_field(b2, st_['rv']['p'], ty, i))):
                            written.add(i)
        for fn in fns:
            n += 1
            b = prog.bodies[fn]
            sub = set(f for f, bb in prog.bodies.items() if f.endswith('::is_empty') and f != fn and f.startswith(('unic_locale_impl::', 'unic_langid_impl::')))
            e = pxm.PX(prog, opaque=sub)
            segs = e.explore(fn)
            bad = []
            for s in segs:
                if s.kind != 'return':
                    bad.append('path ends in %s' % s.kind)
                    continue
                known = {}

                def field_of(t):
                    ap = terms.access_path(t)
                    if ap and ap[0] == 1 and ap[1]:
                        p0 = terms.strip_some(ap[1])
                        if p0 and isinstance(p0[0], int):
                            return p0[0]
                    return None
                for k, v in s.state.facts.items():
                    if k[0] in ('pure', 'call') and isinstance(k[1], str) and k[1].endswith('::is_empty') and k[2]:
                        fi = field_of(k[2][0])
                        if fi is not None:
                            known[fi] = bool(v)
                    elif k[0] == 'tag':
                        fi = field_of(k[1])
                        if fi is not None and terms.norm_ty(fs[fi]['ty']).startswith('std::option::Option<'):
                            known[fi] = (v == 'neg')
                    elif k[0] == 'bin' and k[1] == 'Eq' and k[3] == ('int', 0) and k[2][0] in ('pure', 'len'):
                        x = k[2][2][0] if k[2][0] == 'pure' and k[2][2] else None
                        fi = field_of(x) if x is not None else None
                        if fi is not None:
                            known[fi] = bool(v)
                need = sorted(written)
                empt = [i for i in need if known.get(i) is True]
                nonempty = [i for i in need if known.get(i) is False]
                unknown = [i for i in need if i not in known]
                r = s.ret
                names = lambda ii: [fs[i]['name'] for i in ii]
                if r == ('int', 1):
                    if nonempty or unknown:
                        bad.append('answers "empty" although %s may hold something' % names(nonempty + unknown))
                elif r == ('int', 0):
                    if not nonempty:
                        bad.append('answers "not empty" although no field is known to hold anything (known empty: %s)' % names(empt))
                else:
                    rf = None
                    if r[0] in ('pure', 'call') and isinstance(r[1], str) and r[1].endswith('::is_empty') and r[2]:
                        rf = field_of(r[2][0])
                    elif r[0] == 'pred' and r[1] == 'tag' and r[3] == 'neg':
                        rf = field_of(r[2])
                    elif r[0] == 'bin' and r[1] == 'Eq' and r[3] == ('int', 0) and r[2][0] == 'pure' and r[2][2]:
                        rf = field_of(r[2][2][0])
                    if rf is None:
                        bad.append('INCONCLUSIVE(result %s)' % e.short(r, 120))
                    elif nonempty or [i for i in unknown if i != rf]:
                        bad.append('answers with the emptiness of %s alone although %s may hold something' % (fs[rf]['name'], names(nonempty + [i for i in unknown if i != rf])))
            rep.ob('isempty:%s' % ty, 'TS-ISEMPTY', fn, b['span'], '%s::is_empty is true exactly when every field the library can fill is empty' % ty, not bad and bool(segs),
                   detail='\n'.join(sorted(set(bad))[:4]), how='%d paths over fields %s' % (len(segs), [fs[i]['name'] for i in sorted(written)]))
    return n


def raw_ctor_callers(prog, rep, allinv):
    """who-may-call rule for the unchecked constructors: every in-repository caller must pass canonical variants"""
    from .. import callgraph
    cg = callgraph.CallGraph(prog)
    targets = [t for t in EXEMPT_CTORS if t in prog.bodies and 'LanguageIdentifier' in t]
    n = 0
    for f, b in sorted(prog.bodies.items()):
        if f in EXEMPT_CTORS or not (set(cg.edges.get(f, ())) & set(targets)):
            continue
        if b['sig'] and b['sig']['unsafe']:
            continue
        n += 1
        e = pxm.PX(prog, opaque=set(targets))
        bad = []
        for s in e.explore(f):
            for ev in s.state.events:
                if ev[0] == 'call' and ev[1] in targets and len(ev[2]) >= 4:
                    v = ev[2][3]
                    if v[0] == 'adt' and v[2] == 'None':
                        continue
                    ap = terms.access_path(v)
                    if ap is not None and not terms.find_terms(v, lambda t: t[0] in ('pure', 'mut', 'call')):
                        continue       # an existing variants field / parameter of that type moved through
                    r = ts.of_value(e, s.state, v, s.state.facts)
                    sm = ts.call_summary(e, v)
                    if ts.worse(r.state, ts.SD) or (sm.some_empty if sm is not None else r.maybe_empty):
                        bad.append('passes variants that are %s%s: %s' % (ts.NAMES[r.state], ' and possibly empty' if r.maybe_empty else '', e.short(v, 140)))
        rep.ob('rawctor:%s' % validators.fn_key(f), 'TS-RAWCTOR', f, b['span'], '%s hands canonical variants (None, or sorted, duplicate-free, non-empty) to the unchecked constructor' % validators.short_fn(f),
               not bad, detail='\n'.join(sorted(set(bad))[:3]))
    return n


def order_obligations(prog, rep, cfg):
    """what "sorted" means: the order the collections are kept in is the derived Ord of the element type, and every binary search on an invariant
    field uses that same order (plain binary_search; a search by another key or comparator would look in the wrong place)"""
    if cfg == 'K0':
        from . import c12
        c12.derived_impls(prog, rep)
    allinv = mu.invariant_fields(prog.facts)
    fields = {}
    for ty, (full, inv) in allinv.items():
        for (fi, fname, req, nonempty, role) in inv:
            fields[(ty, fi)] = fname
    n = 0
    for fn, b in sorted(prog.bodies.items()):
        if not fn.startswith(('unic_langid_impl::', 'unic_locale_impl::')) or not b.get('mir'):
            continue
        names = [(blk['term'].get('r') or blk['term'].get('f') or '') for blk in b['mir']['blocks'] if blk['term']['k'] == 'call']
        if not any(re.search(r'::binary_search_by(_key)?$|::partition_point$', x) for x in names):
            continue
        ty, _ = mu.self_type(b)
        if ty not in mu.TYPES:
            continue
        e = pxm.PX(prog)
        try:
            segs = e.explore(fn)
        except pxm.Limit:
            continue
        bad = []
        for s in segs:
            for ev in s.state.events:
                if ev[0] == 'call' and re.search(r'::binary_search_by(_key)?$', ev[1]) and ev[2]:
                    try:
                        tp = models.vec_place(e, s.state, ev[2][0])
                    except Exception:
                        tp = None
                    ap = terms.access_path(('ref', tp)) if tp is not None else None
                    if ap and ap[0] == 1 and ap[1] and (ty, terms.strip_some(ap[1])[0]) in fields:
                        bad.append('%s is searched with %s: the list is sorted by the derived order of its elements, a search by another key or comparator is not defined on it' % (
                            fields[(ty, terms.strip_some(ap[1])[0])], ev[1].split('::')[-1]))
        n += 1
        rep.ob('search-order:%s' % validators.fn_key(fn), 'TS-SEARCH-ORDER', fn, b['span'], '%s searches the ordered collections of %s only in the order they are kept in' % (validators.short_fn(fn), ty),
               not bad, detail='\n'.join(sorted(set(bad))[:3]))
    return n


def representation_obligations(rep, cfgs=('K0',)):
    """typestate obligations shared with C04/C05/C12: invariants at every exit of every mutator and constructor"""
    n_ctor = 0
    for cfg in cfgs:
        prog = common.program(cfg)
        order_obligations(prog, rep, cfg)
        allinv = mu.invariant_fields(prog.facts)
        for fn, ty in mu.mutator_methods(prog):
            name = fn.split('::')[-1]
            full, inv = allinv.get(ty, (None, []))
            if not inv:
                continue
            e = pxm.PX(prog)
            try:
                segs = e.explore(fn)
            except pxm.Limit as ex:
                rep.ob('mut:%s::%s:explore' % (ty, name), 'TS-EXPLORE', fn, prog.bodies[fn]['span'], 'method explored', False, 'INCONCLUSIVE(%s)' % ex)
                continue
            mu.check_invariants_method(prog, e, segs, fn, ty, inv, rep, 'mut:%s::%s' % (ty, name))
        other_writer_obligations(prog, rep, allinv)
        raw_ctor_callers(prog, rep, allinv)
        if cfg == 'K0':
            for fn, ty in mu.constructors(prog):
                n_ctor += mu.check_constructor(prog, fn, ty, allinv, rep, EXEMPT_CTORS)
    return n_ctor


def other_writer_obligations(prog, rep, allinv):
    """the invariants hold at every exit of EVERY function with `&mut` access to a value type, not only of its inherent methods; and nobody hands
    mutable access to the collections out"""
    for fn, ty, k in mu.other_writers(prog):
        full, inv = allinv.get(ty, (None, []))
        if not inv:
            continue
        e = pxm.PX(prog)
        try:
            segs = e.explore(fn)
        except pxm.Limit as ex:
            rep.ob('writer:%s:explore' % fn, 'TS-EXPLORE', fn, prog.bodies[fn]['span'], 'function explored', False, 'INCONCLUSIVE(%s)' % ex)
            continue
        mu.check_invariants_method(prog, e, segs, fn, ty, inv, rep, 'writer:%s' % validators.fn_key(fn), recv=k)
    mu.mutable_escapes(prog, rep)


def mutator_obligations(rep, cfgs=('K0', 'K1'), with_getters=True):
    """all obligations of C10 emitted into `rep` (shared with C04/C05/C09)"""
    roles = validators.load_roles()
    total_methods = 0
    n_effect = 0
    n_ctor = 0
    nerr_paths = 0
    for cfg in cfgs:
        prog = common.program(cfg)
        order_obligations(prog, rep, cfg)
        allinv = mu.invariant_fields(prog.facts)
        if cfg == 'K0':
            ninv = sum(len(v[1]) for v in allinv.values())
            rep.floor('invariant fields (variants, attributes, private tags)', ninv, 3)
        methods = mu.mutator_methods(prog)
        if cfg == 'K0':
            total_methods = len(methods)
            rep.count('K0 &mut self methods', ', '.join('%s::%s' % (ty, f.split('::')[-1]) for f, ty in methods))
        for fn, ty in methods:
            name = fn.split('::')[-1]
            keybase = 'mut:%s::%s' % (ty, name)
            b = prog.bodies[fn]
            e = pxm.PX(prog)
            try:
                segs = e.explore(fn)
            except pxm.Limit as ex:
                rep.ob(keybase + ':explore', 'TS-EXPLORE', fn, b['span'], 'method explored', False, 'INCONCLUSIVE(%s)' % ex)
                continue
            has_loops = any(s.kind == 'loop' for s in segs)
            nerr_paths += mu.check_atomicity(prog, e, segs, fn, rep, keybase)
            full, inv = allinv.get(ty, (None, []))
            if inv:
                mu.check_invariants_method(prog, e, segs, fn, ty, inv, rep, keybase)
            if cfg == 'K0' and spec_effect(prog, e, segs, fn, ty, name, rep, roles, has_loops):
                n_effect += 1
            elif cfg == 'K0':
                # a mutator the model has no effect specification for: whatever it stores must still be validated text of the field's role
                generic_provenance(prog, e, segs, fn, ty, rep, roles, has_loops)
        other_writer_obligations(prog, rep, allinv)
        raw_ctor_callers(prog, rep, allinv)
        if cfg == 'K0':
            for fn, ty in mu.constructors(prog):
                n_ctor += mu.check_constructor(prog, fn, ty, allinv, rep, EXEMPT_CTORS)
            ne = is_empty_getters(prog, rep)
            rep.floor('is_empty getters of the extension types', ne, 4)
            nl = listing_getters(prog, rep)
            rep.floor('listing accessors', nl, 6)
            if with_getters:
                ng = getters(prog, rep, roles)
                rep.floor('validating getters', ng, 5)
    rep.floor('&mut self methods of the value types (K0)', total_methods, 16)
    rep.floor('mutators with an effect specification', n_effect, 14)
    rep.floor('constructors analysed', n_ctor, 5)
    rep.count('error-returning paths checked for atomicity', nerr_paths)


def run(tier, replay=None):
    rep = common.new_report('C10', tier, 'other')
    mutator_obligations(rep)
    # assigning parsed subtags to the public fields: the subtag validators normalise exactly as the parser does (shared with C15)
    validators.run_all(common.program('K0'), rep)
    # "to_string and a re-parse agree with the model": every state the mutators can build (an empty value list under a key, any order of insertion)
    # is printed by the Display grammars and re-read by the parser tables into the slots it was printed from (shared with C05)
    from . import c05
    c05.roundtrip_obligations(common.program('K0'), rep)
    # values built by the compile-time macros belong to this property's domain as well: the macro witnesses of C16 (cached per tree)
    from . import c16
    c16.witness_family(rep, tier)
    rep.explanation = ('Structural necessary conditions of the model equivalence, decided on every path of every mutator, constructor and validating getter: '
                       'typestate (sorted / duplicate-free / single empty representation) of the invariant fields at every exit, no write to self before an Err return, '
                       'every inserted key/value/attribute/tag is the argument validated against the exact production and normalised as the parser does (shape domain), '
                       'rejected arguments lie outside the production, and each public mutator has the abstract effect (insert one / remove one at the found position / clear / '
                       'map insert / map remove / assign) of the set, multiset or map operation it models. Step-by-step agreement with a reference model on concrete histories is not decided.')
    rep.assumptions = ['std Vec/BTreeMap/slice operations behave as documented (sort, dedup, binary_search, insert, remove, retain, clear)',
                       'collect::<Result<Vec<_>,_>>() yields Err iff some element is Err',
                       'exempt: ' + '; '.join('%s (%s)' % kv for kv in EXEMPT_CTORS.items())]
    return rep.finish()
