"""C14 — character_direction agrees with the CLDR layout data (DESIGN §4.14).

The body of character_direction is explored into a decision list (paths = conjunctions of interpretable atoms: presence
of language/script, membership of an integer form in one of the four direction constants, and - with likelysubtags - the
outcome of maximize(language, None, region)).  The list is then *applied by the checker* to finite CLDR data with a
checker-side model of the identifier and of maximize (a dictionary built from likelySubtags.json); the library is not run."""
from .. import px as pxm, terms, tab, evalterm as ev, facts as factsmod
from . import common, tables, likely

DIRS = {'LTR': 'LTR', 'RTL': 'RTL', 'TTB': 'TTB'}


def model_maximize(tabs, order, l, s, r):
    """the cascade of property C06 on the CLDR dictionary; texts in, texts (or None = unchanged) out"""
    def val(role, *texts):
        widths = {'lang': 8, 'script': 4, 'region': 4}
        key = tuple(tab.enc(t, widths[k], order) for t, k in zip(texts, tables.ROLE_KEYS[role]))
        hit = tabs[role].get(key)
        if hit is None:
            return None
        v = hit[0]
        return tuple((tab.dec(n, w, order).decode() if n is not None else None) for n, w in zip(v, (8, 4, 4)))
    if l and s and r:
        return None
    if l:
        if r:
            v = val('LANG_REGION', l, r)
            if v:
                return v
        if s:
            v = val('LANG_SCRIPT', l, s)
            if v:
                return v
        v = val('LANG_ONLY', l)
        if v:
            return (v[0], s or v[1], r or v[2])
        return None
    if s:
        if r:
            v = val('SCRIPT_REGION', s, r)
            if v:
                return v
        v = val('SCRIPT_ONLY', s)
        if v:
            return (v[0], v[1], r or v[2])
        return None
    if r:
        v = val('REGION_ONLY', r)
        if v:
            return v
    return None


class DecisionList:
    def __init__(self, prog, fn, mx):
        self.prog = prog
        self.fn = fn
        self.e = pxm.PX(prog, opaque=set(mx))
        self.segs = self.e.explore(fn)
        self.mx = set(mx)
        self.problems = []
        self.paths = []
        for s in self.segs:
            if s.kind != 'return':
                self.problems.append('path ends in %s' % s.kind)
                continue
            r = s.ret
            if not (r and r[0] == 'adt' and r[2] in DIRS and not r[3]):
                self.problems.append('result not a direction constant: %s' % self.e.short(r))
                continue
            self.paths.append((list(s.state.facts.items()), r[2], s))
        if self.e.unmodelled:
            self.problems.append('INCONCLUSIVE(unmodelled callee %s)' % list(self.e.unmodelled)[0])

    def apply(self, lang, script, region, maximize):
        """-> (direction, path index) for a concrete identifier; raises NotEvaluable"""
        def mxcall(args):
            l, s, r = (ev.subtag_text(a) for a in args)
            out = maximize(l, s, r)
            if out is None:
                return ev.NONE
            return ev.some(ev.struct(ev.struct(ev.some(ev.tiny(out[0])) if out[0] else ev.NONE),
                                     ev.some(ev.struct(ev.tiny(out[1]))) if out[1] else ev.NONE,
                                     ev.some(ev.struct(ev.tiny(out[2]))) if out[2] else ev.NONE))
        E = ev.Evaluator({1: ev.model_langid(lang, script, region)}, {m: mxcall for m in self.mx})
        hits = []
        for i, (facts, d, s) in enumerate(self.paths):
            ok = True
            for k, v in facts:
                if E.fact(k) != v:
                    ok = False
                    break
            if ok:
                hits.append((d, i))
        if len(hits) != 1:
            raise ev.NotEvaluable('%d paths apply to %s-%s-%s' % (len(hits), lang, script, region))
        return hits[0]

    def reads_variants(self):
        """does any atom or call argument of the list mention field `variants` of self?"""
        facts = self.prog.facts
        fs = terms.struct_fields(facts, 'unic_langid_impl::LanguageIdentifier') or []
        vidx = [i for i, f in enumerate(fs) if 'Variant' in f['ty']]
        found = []

        def visit(t):
            if t[0] in ('F', 'fld') and isinstance(t[2], int) and t[2] in vidx:
                ap = terms.access_path(t)
                if ap and ap[0] == 1 and ap[1][:1] == (t[2],):
                    found.append(t)
        for facts_, d, s in self.paths:
            for k, v in facts_:
                terms.walk(k, visit)
            for evt in s.events:
                if evt[0] == 'call':
                    for a in evt[2]:
                        terms.walk(a, visit)
        return found


def check_config(cfg, rep, tier='quick'):
    prog = common.program(cfg)
    order = tables.byte_order(prog, rep)
    roles, sets, locales, nel, _ = tables.direction(prog, rep) if cfg == 'K1' else tables.direction(prog, common.report.Report('x', 'quick', 'proof', ''))
    if cfg == 'K0':
        # K0 tables are the same constants; report them under K1 only (same obligations), but fail closed if they differ
        r1 = tables.direction(common.program('K1'), common.report.Report('x', 'quick', 'proof', ''))[0]
        same = {k: v[1][2] for k, v in roles.items()} == {k: v[1][2] for k, v in r1.items()}
        rep.ob('dir:same-in-both-configs', 'TAB-KEYS', '-', '-', 'the direction constants are identical with and without likelysubtags', same)
    fns = [n for n, b in prog.bodies.items() if n.startswith('unic_langid_impl::') and b['kind'] == 'AssocFn' and b.get('impl') and b['impl']['self_ty'] == 'LanguageIdentifier'
           and not b['impl']['trait'] and b['sig'] and b['sig']['output'].endswith('CharacterDirection')]
    rep.floor('%s: character_direction bodies' % cfg, len(fns), 1)
    mx = likely.find_likely_fn(prog, 'maximize') if cfg == 'K1' else []
    tabs = tab.derive_likely(factsmod.REPO, order)[0]
    maximize = (lambda l, s, r: model_maximize(tabs, order, l, s, r))
    nolikely = (lambda l, s, r: (_ for _ in ()).throw(ev.NotEvaluable('maximize called without the feature')))
    out = {'evaluations': 0, 'paths': 0}
    for fn in fns:
        b = prog.bodies[fn]
        dl = DecisionList(prog, fn, mx)
        out['paths'] += len(dl.paths)
        site = b['span']
        key = '%s:direction' % cfg
        rep.ob(key + ':explored', 'CASC-DIR-LIST', fn, site, '%s: character_direction is a decision list over interpretable atoms' % cfg, not dl.problems and dl.paths,
               detail='\n'.join(dl.problems[:4]), how='%d paths' % len(dl.paths))
        rv = dl.reads_variants()
        rep.ob(key + ':no-variants', 'CASC-DIR-READS', fn, site, '%s: the direction never depends on the variants' % cfg, not rv, detail='reads %s' % [dl.e.short(x) for x in rv[:2]])
        mxf = maximize if cfg == 'K1' else nolikely
        # ---- (1) the 710 CLDR locales
        bad, amb = [], []
        multi = {}
        for key_, d in locales.items():
            l = tab.parse_cldr_id(key_)[0]
            multi.setdefault(l, set()).add(d)
        try:
            for key_, d in sorted(locales.items()):
                l, s, r, v = tab.parse_cldr_id(key_)
                got, _ = dl.apply(l, s, r, mxf)
                out['evaluations'] += 1
                if got != d:
                    if cfg == 'K0' and s is None and len(multi[l]) > 1:
                        amb.append(key_)
                    else:
                        bad.append('%s: decision list gives %s, CLDR characterOrder is %s' % (key_, got, d))
        except ev.NotEvaluable as ex:
            bad.append('INCONCLUSIVE(%s)' % ex)
        rep.ob(key + ':cldr-locales', 'CASC-DIR-CLDR', fn, site,
               ('K1: the decision list yields CLDR\'s characterOrder for every locale of the layout data' if cfg == 'K1' else
                'K0: the decision list differs from CLDR only for script-less identifiers of languages listed with more than one direction'),
               not bad, detail='\n'.join(bad[:6]), how='%d locales evaluated%s' % (len(locales), (', %d permitted differences: %s' % (len(amb), amb[:6])) if amb else ''),
               witness=bad[0].split(':')[0] if bad else None)
        # ---- (2) universe clauses: listed script decides alone; unlisted script + never-RTL language is LTR
        scripts = {}
        for role in ('LTR', 'RTL', 'TTB'):
            if role in roles:
                for n in roles[role][1][2]:
                    t = tab.dec(n, 4, order)
                    if t:
                        scripts[t.decode('latin1')] = role
        exp_scripts = {}
        for role in ('LTR', 'RTL', 'TTB'):
            for n in sets[role]:
                exp_scripts[tab.dec(n, 4, order).decode()] = role
        rtl_langs = sorted(tab.dec(n, 8, order).decode() for n in sets['LANGS_RTL'])
        all_langs = sorted({tab.parse_cldr_id(k)[0] for k in locales if tab.parse_cldr_id(k)[0]} | set(tab.dec(k[0], 8, order).decode() for k in tabs['LANG_ONLY']))
        all_langs = [l for l in all_langs if l != 'und']
        regions = sorted({tab.dec(k[0], 4, order).decode() for k in tabs['REGION_ONLY']})
        bad2, bad3 = [], []
        nonrtl = []
        try:
            probe_langs = [None] + rtl_langs + [l for l in all_langs if l not in rtl_langs][:40] + ['xx', 'qqq']
            for sname, role in sorted(exp_scripts.items()):
                for l in probe_langs:
                    for r in (None, 'US', 'IR', 'CN', 'ZZ'):
                        got, _ = dl.apply(l, sname, r, mxf)
                        out['evaluations'] += 1
                        if got != role:
                            bad2.append('%s-%s-%s: %s, but CLDR lists script %s as %s' % (l or 'und', sname, r or '', got, sname, role))
            layout_langs = {tab.parse_cldr_id(k)[0] for k in locales}
            pool = [l for l in all_langs if l not in rtl_langs]
            if tier != 'thorough':
                # quick tier: every language of the layout data plus every 25th of the likely-subtags languages
                pool = [l for i, l in enumerate(pool) if l in layout_langs or i % 25 == 0]
            nonrtl = [None] + pool + ['xx', 'qqq', 'abcde']
            for l in nonrtl:
                for sname in (None, 'Zzzz', 'Qaaa', 'Brai'):
                    if sname in exp_scripts:
                        continue
                    for r in (None, 'US', 'IR', 'PK', '001'):
                        got, _ = dl.apply(l, sname, r, mxf)
                        out['evaluations'] += 1
                        if got != 'LTR':
                            bad3.append('%s-%s-%s: %s, expected LTR (script not listed, language never right-to-left)' % (l or 'und', sname or '', r or '', got))
            # RTL languages x every region: the likely-script refinement (K1) / plain RTL (K0), against the model
            for l in rtl_langs:
                for r in [None] + regions:
                    got, _ = dl.apply(l, None, r, mxf)
                    out['evaluations'] += 1
                    if cfg == 'K1':
                        m = maximize(l, None, r)
                        want = 'LTR' if (m and m[1] and exp_scripts.get(m[1]) == 'LTR') else 'RTL'
                    else:
                        want = 'RTL'
                    if got != want:
                        bad3.append('%s-%s: %s, expected %s' % (l, r or '', got, want))
        except ev.NotEvaluable as ex:
            bad2.append('INCONCLUSIVE(%s)' % ex)
        rep.ob(key + ':script-decides', 'CASC-DIR-SCRIPT', fn, site, '%s: a script that CLDR lists decides the direction on its own' % cfg, not bad2, detail='\n'.join(bad2[:6]),
               how='%d listed scripts x probe languages x regions' % len(exp_scripts), witness=bad2[0].split(':')[0] if bad2 else None)
        rep.ob(key + ':default-ltr', 'CASC-DIR-DEFAULT', fn, site,
               '%s: unlisted script + never-RTL language is LTR; a script-less RTL language is RTL%s' % (cfg, ' unless its likely script is a listed LTR script' if cfg == 'K1' else ''),
               not bad3, detail='\n'.join(bad3[:6]), how='%d languages, %d regions' % (len(nonrtl) + len(rtl_langs), len(regions)), witness=bad3[0].split(':')[0] if bad3 else None)
    return out, len(locales)


def run(tier, replay=None):
    rep = common.new_report('C14', tier, 'proof')
    # the likely-script refinement is decided with a model of maximize: tie the model to the code (obligations shared with C06)
    p1 = common.program('K1')
    ct, exp, order, nrows = tables.likely(p1, rep)
    likely.check_maximize(p1, rep, ct, order)
    o1, nloc = check_config('K1', rep, tier)
    o0, _ = check_config('K0', rep, tier)
    rep.count('decision-list paths (K1 / K0)', '%d / %d' % (o1['paths'], o0['paths']))
    rep.count('model evaluations of the decision lists (K1 / K0)', '%d / %d' % (o1['evaluations'], o0['evaluations']))
    rep.count('CLDR layout locales', nloc)
    rep.floor('layout locales', nloc, 700)
    rep.floor('decision-list paths', o1['paths'] + o0['paths'], 20)
    rep.extra['exhaustive'] = True
    # the direction lookups key on the integer forms of the stored language / script text: one canonical stored form per subtag, und = None (shared with C15)
    from . import validators, subtag_api
    validators.run_all(common.program('K0'), rep, roles_wanted={'Language', 'Script', 'Region', 'Variant'})
    subtag_api.language_empty(common.program('K0'), rep, validators.load_roles())
    # the feature that selects this code must be reachable from the crate a user enables it on (manifest wiring)
    from .. import features
    features.check(rep)
    # values built by the compile-time macros belong to this property's domain as well: the macro witnesses of C16 (cached per tree)
    from . import c16
    c16.witness_family(rep, tier)
    rep.explanation = ('(a) the four direction constants equal, as sets, the independent derivation from the 710 layout files and are pairwise disjoint (data rules); '
                       '(b) character_direction is read from MIR as a decision list whose atoms are all interpretable (presence, membership in a direction constant, outcome of '
                       'maximize(language, None, region)); variants are never read; (c) the checker applies that list, with its own model of maximize built from likelySubtags.json, '
                       'to every CLDR locale (exhaustive), to every listed script x probe languages, to every CLDR language x unlisted scripts, and to every RTL language x every region. '
                       'The library is not executed; C06 ties the model of maximize to the code.')
    rep.assumptions = ['<[T]>::contains is membership (std)', 'the model of maximize used for the K1 refinement is the cascade that the CASC/TAB obligations (shared with C06, re-checked here) prove of the code']
    return rep.finish()
