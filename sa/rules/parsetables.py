"""Specification tables of the five token-stream parsers (DESIGN Appendix A) and the product exploration that compares
them with the steps extracted by sa.parse (implementation head node x specification state)."""
import re
from .. import parse, shape as sh, terms, px as pxm
from ..shape import Shape
from . import validators, entry

FULL = sh.FULL


def lit_ci(text):
    return Shape.product(len(text), [sh.mask(lambda b, ch=ch: sh.t_lower(b) == ch) for ch in text.encode()])


def lens(ns):
    return Shape.union_of([Shape.product(n, [FULL] * n) for n in ns])


TOP = Shape.top()
EMPTY = Shape.product(0, [])
LEN1 = Shape.product(1, [FULL])
LEN2 = Shape.product(2, [FULL, FULL])
U1, T1, X1 = lit_ci('u'), lit_ci('t'), lit_ci('x')
ALNUM1 = Shape.product(1, [sh.ALNUM])
OTHER1 = ALNUM1.minus(U1).minus(T1).minus(X1)
NONALNUM1 = LEN1.minus(ALNUM1)
LEN2PLUS = TOP.minus(EMPTY).minus(LEN1)
TRUE = lit_ci('true')


class Row:
    def __init__(self, name, shape, outcome, **kw):
        self.name, self.shape, self.outcome, self.kw = name, shape, outcome, kw


def rest(rows):
    s = TOP
    for r in rows:
        if r.shape is not None:
            s = s.minus(r.shape)
    return s


def build_specs():
    R = validators.load_roles()
    lang, script, region, variant = (R[x].accept for x in ('Language', 'Script', 'Region', 'Variant'))
    ukey, utype, uattr, tkey, tvalue, ptag = (R[x].accept for x in ('ukey', 'utype', 'uattr', 'tkey', 'tvalue', 'privatetag'))
    specs = {}
    # ---- A.1 core language-identifier parser
    a = [Row('script', script, 'consume', slot='Option<Script>', role='Script', next='S'), Row('region', region, 'consume', slot='Option<Region>', role='Region', next='V'),
         Row('variant', variant, 'consume', slot='variants', role='Variant', next='V')]
    s_ = [Row('region', region, 'consume', slot='Option<Region>', role='Region', next='V'), Row('variant', variant, 'consume', slot='variants', role='Variant', next='V')]
    v_ = [Row('variant', variant, 'consume', slot='variants', role='Variant', next='V')]
    UND = lit_ci('und')
    l0 = [Row('language', lang.minus(UND), 'consume', slot='Language', role='Language', next='A'), Row("language 'und'", UND, 'skip', next='A')]
    specs['core'] = {
        'init': 'L0', 'disjoint': [('Script', script), ('Region', region), ('Variant', variant)],
        'L0': l0 + [Row('not a language subtag', rest(l0), 'reject', error='InvalidLanguage'), Row('END', None, 'default-language', next='A')],
        'A': a + [Row('other subtag', rest(a), 'yield'), Row('END', None, 'yield')],
        'S': s_ + [Row('other subtag', rest(s_), 'yield'), Row('END', None, 'yield')],
        'V': v_ + [Row('other subtag', rest(v_), 'yield'), Row('END', None, 'yield')],
    }
    # ---- A.2 extension dispatcher (one state; the examined token has already been taken with `next`)
    b = [Row('empty subtag', EMPTY, 'either', no_early_ok=True), Row("singleton 'u'", U1, 'call', sub='UnicodeExtensionList', slot='UnicodeExtensionList'),
         Row("singleton 't'", T1, 'call', sub='TransformExtensionList', slot='TransformExtensionList'),
         Row("singleton 'x'", X1, 'call', sub='PrivateExtensionList', slot='PrivateExtensionList', last=True),
         Row('other alphanumeric singleton', OTHER1, 'either'), Row('non-alphanumeric singleton', NONALNUM1, 'reject'),
         Row('subtag longer than one character at an extension boundary', LEN2PLUS, 'reject')]
    # START = the first subtag the dispatcher sees.  It differs from B in one row: ExtensionsMap prints itself with a leading separator
    # ("-u-ca-buddhist": Locale::into_parts, the string locale! hands to `.parse()` at run time), so the first subtag of its own output is
    # empty and has to be skipped, not rejected - reported under its own rule id (PARSE-SELFREAD), only by the properties that need it.
    b0 = [Row(r.name, r.shape, r.outcome, **dict(r.kw, next='B', **({'selfread': True} if r.name == 'empty subtag' else {}))) for r in b]
    specs['dispatch'] = {'init': 'START', 'START': b0 + [Row('END', None, 'finish')], 'B': b + [Row('END', None, 'finish')]}
    # ---- A.3 -u-
    attrs = [Row('attribute', uattr, 'consume', slot='list', role='uattr', next='ATTRS'), Row('key', ukey, 'consume', slot='K', role='ukey', next='KEY'),
             Row('singleton', LEN1, 'yield'), Row('two characters, not a key', LEN2.minus(ukey), 'defer'), Row('empty subtag', EMPTY, 'either')]
    key = [Row('type', utype.minus(TRUE), 'consume', slot='V', role='utype', next='KEY'), Row("type 'true'", TRUE, 'skip', next='KEY'),
           Row('key', ukey, 'consume', slot='K', role='ukey', next='KEY', flush=True), Row('singleton', LEN1, 'yield', flush=True),
           Row('two characters, not a key', LEN2.minus(ukey), 'defer'), Row('empty subtag', EMPTY, 'either')]
    specs['unicode'] = {'init': 'ATTRS', 'pending': {'KEY'},
                        'ATTRS': attrs + [Row('malformed subtag', rest(attrs), 'defer'), Row('END', None, 'yield')],
                        'KEY': key + [Row('malformed subtag', rest(key), 'defer', flush=True), Row('END', None, 'yield', flush=True)]}
    # ---- A.4 -t-
    t0 = [Row('language subtag', lang, 'subparse', slot='tlang', next='TL'), Row('tkey', tkey, 'consume', slot='K', role='tkey', next='TK'),
          Row('singleton', LEN1, 'yield'), Row('empty subtag', EMPTY, 'either')]
    tl = [Row('tkey', tkey, 'consume', slot='K', role='tkey', next='TK'), Row('singleton', LEN1, 'yield'), Row('empty subtag', EMPTY, 'either')]
    tk = [Row('tvalue', tvalue.minus(TRUE), 'consume', slot='V', role='tvalue', next='TK'), Row("tvalue 'true'", TRUE, 'skip', next='TK'),
          Row('tkey', tkey, 'consume', slot='K', role='tkey', next='TK', flush=True), Row('singleton', LEN1, 'yield', flush=True), Row('empty subtag', EMPTY, 'either')]
    specs['transform'] = {'init': 'T0', 'pending': {'TK'},
                          'T0': t0 + [Row('malformed subtag', rest(t0), 'defer', allow_subparse=True), Row('END', None, 'yield')],
                          'TL': tl + [Row('any other subtag (including a second tlang)', rest(tl), 'defer', nostore='tlang'), Row('END', None, 'yield')],
                          'TK': tk + [Row('malformed subtag', rest(tk), 'defer', flush=True), Row('END', None, 'yield', flush=True)]}
    # ---- A.5 -x-
    p = [Row('private-use subtag', ptag, 'consume', slot='list', role='privatetag', next='P')]
    specs['private'] = {'init': 'P', 'P': p + [Row('malformed subtag', rest(p), 'reject'), Row('END', None, 'finish')]}
    return specs, R


# ---------------------------------------------------------------------------------------------------------------
def root_keys(v):
    """loop-carried cells (full lv keys: local, field path...) a value is built from: the base of its mutation history, looking
    through Some / boxing wrappers and payload projections"""
    out = set()
    x = v
    for _ in range(16):
        if x[0] == 'adt' and x[2] in ('Some', 'Ok') and len(x[3]) == 1:
            x = x[3][0]
        elif x[0] == 'pure' and x[1].split('::')[-1] in ('into_boxed_slice', 'into_vec', 'into', 'from', 'clone') and len(x[2]) == 1:
            x = x[2][0]
        elif x[0] in ('mut', 'cref', 'pos'):
            x = x[1]
        elif x[0] == 'fld' and isinstance(x[2], int):
            inner = root_keys(x[1])
            return set(k + (x[2],) for k in inner)
        else:
            break
    if x[0] == 'lv' and isinstance(x[1], tuple) and x[1]:
        out.add(tuple(x[1]))
    elif x[0] == 'adt':
        for y in x[3]:
            out |= root_keys(y)
    return out


def root_locals(v):
    return set(k[0] for k in root_keys(v))


def compatible(a, b):
    """one cell path is a prefix of the other"""
    n = min(len(a), len(b))
    return a[:n] == b[:n]


class Slots:
    """names the sinks of a parser by the wiring of its Ok result (field of the returned struct <- local) and by the arguments of
    map insertions (key slot / value slot)"""

    def __init__(self, prog, pa, result_ty):
        self.by_local = {}      # local -> slot name (whole local)
        self.by_key = {}        # (local, path...) -> slot name (cells inside a local: Option payloads, tuple fields)
        self.result_local = None
        self.field_slot = {}    # (result local, field idx) -> slot name
        facts = prog.facts
        full, adt = terms.find_adt(facts, result_ty)
        fields = adt['variants'][0]['fields'] if adt else []
        self.problems = []
        self.value_slot = []
        for st in pa.steps:
            if st.end[0] != 'ok' or st.end[1] is None:
                continue
            v = st.end[1]
            vals = []
            from . import mutators as mu
            mu.find_struct_values(v, full, vals)
            for sv in vals:
                # a loop-carried cell (l, i) that is field i of the returned struct identifies the struct local l, even when the other fields were
                # never written inside a loop and hang off no cell
                cands = set(k[0] for i, fv in enumerate(sv[3]) for k in root_keys(fv) if len(k) >= 2 and k[1] == i)
                if len(cands) == 1 and len(sv[3]) > 1:
                    l = next(iter(cands))
                    self.result_local = l
                    for i in range(len(sv[3])):
                        name = field_slot_name(fields[i]) if i < len(fields) else None
                        if name is not None:
                            self.field_slot[(l, i)] = name
                for i, fv in enumerate(sv[3]):
                    name = field_slot_name(fields[i]) if i < len(fields) else None
                    if name is None:
                        continue
                    for l in root_locals(fv):
                        # (a field the loops never write keeps its initial value and hangs off no loop-carried cell: it does not count)
                        rooted = [root_locals(x) for x in sv[3] if root_locals(x)]
                        if len(sv[3]) > 1 and len(rooted) > 1 and all(l in r for r in rooted):
                            # all fields hang off one struct local: field-level sinks
                            self.result_local = l
                            self.field_slot[(l, i)] = name
                        else:
                            self.by_local.setdefault(l, name)
                    self.value_slot.append((fv, name))
            if v[0] == 'lv' and isinstance(v[1], tuple):
                self.result_local = v[1][0]
        if self.result_local is not None:
            for i, f in enumerate(fields):
                n = field_slot_name(f)
                if n:
                    self.field_slot.setdefault((self.result_local, i), n)
        # slots that are plain locals assigned once (not loop-carried): recognised by the stored value being the returned field value
        for st in pa.steps:
            for sink, val, tok, xf, sp in st.stores:
                if sink[0] == 'L' and len(sink) == 3:
                    for fv, name in self.value_slot:
                        if fv == val:
                            self.by_local.setdefault(sink[1], name)
        # map insertions: key / value slots
        for st in pa.steps:
            for sink, val, tok, xf, sp in st.stores:
                if sink[0] == 'L' and len(sink) > 3 and sink[3] == 'insert' and self.slot_of_sink(sink) == 'map' and val[0] == 'tuple' and len(val[1]) == 2:
                    for k in root_keys(val[1][0]):
                        self.by_key[k] = 'K'
                    for k in root_keys(val[1][1]):
                        self.by_key[k] = 'V'
                    # a key held in a plain local of the enclosing iteration (nested loops: `let key = parse_key(..)?; <inner loop>; map.insert(key, values)`):
                        # the local that received exactly the inserted value is the key slot
                    for st2 in pa.steps:
                        for sink2, val2, tok2, xf2, sp2 in st2.stores:
                            if sink2 and sink2[0] == 'L' and len(sink2) == 3 and not sink2[2] and val2 == val[1][0] and tok2 is not None:
                                self.by_local.setdefault(sink2[1], 'K')
        # a collection moved out of a loop-carried cell into a plain local, extended there and moved back (`State::Field(key, mut values) => {
        # values.push(v); State::Field(key, values) }`): the local stands for the cell its value comes from
        self.alias = {}
        for st in pa.steps:
            fr = st.seg.state.frames.get(1, {}) if hasattr(st.seg.state, 'frames') else {}
            for sink, val, tok, xf, sp in st.stores:
                if sink and sink[0] == 'L' and len(sink) > 3 and not sink[2] and sink[1] not in self.alias:
                    v = fr.get(sink[1])
                    ks = root_keys(v) if isinstance(v, tuple) and v else set()
                    if len(ks) == 1:
                        k = next(iter(ks))
                        if k[0] != sink[1]:
                            self.alias[sink[1]] = k
        # cells that are whole locals also answer by local
        for k, name in list(self.by_key.items()):
            if len(k) == 1 or all(isinstance(x, int) and x == 0 for x in k[1:]) and not [k2 for k2 in self.by_key if k2 != k and k2[0] == k[0]]:
                self.by_local.setdefault(k[0], name)

    def slot_of_sink(self, sink):
        if sink is None or sink[0] != 'L':
            return None
        l, path = sink[1], sink[2]
        if not path and l in getattr(self, 'alias', {}) and l not in self.by_local:
            k = self.alias[l]
            return self.slot_of_sink(('L', k[0], tuple(k[1:])) + tuple(sink[3:]))
        if path and (l, path[0]) in self.field_slot:
            return self.field_slot[(l, path[0])]
        # cells inside a local (payload of an Option, field of a tuple): the longest compatible cell names the slot, if unambiguous
        cands = set(name for k, name in self.by_key.items() if k[0] == l and compatible(tuple(k[1:]), tuple(path)))
        if len(cands) == 1:
            return cands.pop()
        if len(cands) > 1:
            exact = set(name for k, name in self.by_key.items() if k[0] == l and tuple(k[1:])[:len(path)] == tuple(path) and len(k) - 1 >= len(path) and tuple(path) == tuple(k[1:len(path) + 1]))
            deeper = set(name for k, name in self.by_key.items() if k[0] == l and tuple(path)[:len(k) - 1] == tuple(k[1:]))
            if len(deeper) == 1:
                return deeper.pop()
            return None
        if not path and l in self.by_local:
            return self.by_local[l]
        if l in self.by_local and path and all(p == 0 for p in path):
            return self.by_local[l]
        return None


def field_slot_name(f):
    """slot names are derived from field TYPES, never from private field names"""
    ty = terms.norm_ty(f['ty'])
    if ty.startswith('std::collections::BTreeMap<'):
        return 'map'
    if ty.startswith('std::option::Option<std::boxed::Box<['):
        return 'variants'
    if ty.startswith('std::vec::Vec<'):
        return 'list'
    if ty.endswith('Language'):
        return 'Language'
    if ty.startswith('std::option::Option<') and ty.endswith('Script>'):
        return 'Option<Script>'
    if ty.startswith('std::option::Option<') and ty.endswith('Region>'):
        return 'Option<Region>'
    if ty.startswith('std::option::Option<') and ty.endswith('LanguageIdentifier>'):
        return 'tlang'
    for n in ('UnicodeExtensionList', 'TransformExtensionList', 'PrivateExtensionList'):
        if ty.endswith(n):
            return n
    return None


# map fields are named by type only when the struct has a single map (true for both extension lists)
def normalise_map_slot(name):
    return 'map' if name in ('keywords', 'tfields', 'map') else name


# ---------------------------------------------------------------------------------------------------------------
class SubStep:
    """the part of a multi-token segment that belongs to one token: the events from its first touch up to the first touch of the next token"""

    def __init__(self, st, lo, hi, end):
        self.seg = st.seg
        self.tokens = st.tokens
        self.stores = [x for x, i in zip(st.stores, st.store_idx) if lo <= i < hi or x[2] is not None]
        self.subcalls = [x for x, i in zip(st.subcalls, st.subcall_idx) if lo <= i < hi]
        self.end = end if end is not None else st.end


class TableCheck:
    def __init__(self, prog, pa, spec, roles, slots, label, flag_param=None, core_fns=(), sub_fns=None):
        self.prog, self.pa, self.spec, self.roles, self.slots, self.label = prog, pa, spec, roles, slots, label
        self.flag_param = flag_param
        self.core_fns = set(core_fns)
        self.sub_fns = sub_fns or {}
        self.viol = {}          # rule -> {(state, row, message): witness}
        self.pairs = set()
        self.rows_hit = set()
        self.nsteps = 0

    # a specification state with a trailing '~' is the same state after the pending key and its values have already been stored (a parser
    # written as nested loops stores them when the inner loop over the values ends, before it looks at the next subtag as a key)
    @staticmethod
    def base(q):
        return q.rstrip('~') if isinstance(q, str) else q

    def is_pending(self, q):
        return self.base(q) in self.spec.get('pending', ()) and not str(q).endswith('~')

    def defer(self, st, tok, q, work):
        """the examined subtag is neither consumed nor stored and the segment goes on to another loop: the same element is under the cursor
        when the next segment starts (with what this path has learned about it) and is judged there.  A key/values pair inserted on the way is
        the flush of the pending key."""
        flushes = [1 for sink, val, t2, xf, _ in st.stores if sink and len(sink) > 3 and sink[3] == 'insert' and normalise_map_slot(self.slots.slot_of_sink(sink)) == 'map']
        nq = q
        if flushes:
            if self.is_pending(q):
                nq = q + '~'
            else:
                self.add('PARSE-FLUSH', self.base(q), '-', 'a key/values pair is inserted although no key is pending in state %s' % self.base(q))
        work.append((st.end[1], nq))

    def add(self, rule, state, row, msg, witness=None, span=None):
        self.viol.setdefault(rule, {}).setdefault((state, row, msg), (witness, span))

    def examined(self, st):
        toks = st.tokens
        if not toks:
            return None
        if st.seg.src[0] == 'head':
            cur = [t for t in toks if t.el[2] == 1]
            last = [t for t in toks if t.el[2] == -1]
            # a `next`-cell loop carries the element just taken (index 0); a `peek`-cell loop the one under the cursor (index 1)
            for t in last:
                if t.present is not None or t.shape is not None:
                    t.consumed = True
                    return t
            for t in cur:
                if t.present is not None or t.shape is not None:
                    return t
            for t in toks:
                if t.present is not None or t.shape is not None:
                    return t
            return None
        for t in toks:
            if t.present is not None or t.shape is not None:
                return t
        return None

    def run(self):
        init = self.spec['init']
        work = [(self.pa.entry, init)]
        seen = set()
        bysrc = {}
        for st in self.pa.steps:
            bysrc.setdefault(st.seg.src, []).append(st)
        while work:
            node, q = work.pop()
            if (node, q) in seen:
                continue
            seen.add((node, q))
            self.pairs.add((node, q))
            for st in bysrc.get(node, []):
                self.nsteps += 1
                known = self.examined_all(st)
                if len(known) > 1:
                    # a segment that examines several subtags one after the other (a parser written as a sequence of phases rather than one loop)
                    self.run_multi(st, known, 0, q, work)
                    continue
                tok = self.examined(st)
                if tok is not None and not tok.consumed and st.end[0] == 'head' and not st.subcalls and not [x for x in st.stores if x[2] is tok] \
                        and (node[0] != 'head' or st.end[1][1] != node[1]):
                    self.defer(st, tok, q, work)
                    continue
                if tok is None:
                    # no token examined in this segment (set-up before the loop): nothing may be stored from the stream
                    if st.end[0] == 'head':
                        work.append((st.end[1], q))
                    elif st.end[0] == 'panic':
                        self.add('PARSE-TABLE', q, '-', 'a panic is reachable')
                    continue
                rows = self.spec[self.base(q)]
                if tok.present == 'neg':
                    for r in rows:
                        if r.name == 'END':
                            nq = self.check_row(st, tok, q, r, None)
                            if nq is not None and st.end[0] == 'head':
                                work.append((st.end[1], nq))
                    continue
                S = tok.shape if tok.shape is not None else TOP
                matched = False
                for r in rows:
                    if r.shape is None:
                        continue
                    inter = S.intersect(r.shape)
                    if inter.is_empty():
                        continue
                    matched = True
                    nq = self.check_row(st, tok, q, r, inter)
                    if st.end[0] == 'head':
                        work.append((st.end[1], nq if nq is not None else q))
                if not matched and not S.is_empty():
                    self.add('PARSE-TABLE', q, '-', 'token class not covered by the specification table: %s' % S.describe()[:100])
        return self

    # ---- segments that examine several tokens in sequence
    def examined_all(self, st):
        ts = [t for t in st.tokens if t.present is not None or t.shape is not None]
        return sorted(ts, key=lambda t: (t.first, t.el[2]))

    def run_multi(self, st, toks, i, q, work):
        """token i of the segment against the rows of state q; every token but the last has to be consumed before the next one can be looked at, so its
        part of the segment behaves like a step that goes on (`head`); the last token sees the real end of the segment"""
        tok = toks[i]
        last = i == len(toks) - 1
        lo = tok.first
        hi = toks[i + 1].first if not last else len(st.seg.events) + 1
        sub = SubStep(st, lo if i > 0 else -1, hi, None if last else ('head', None))
        if not last and not tok.consumed and tok.present != 'neg':
            # cannot happen with a single cursor (the next element is reachable only through `next`); fail closed
            self.add('PARSE-TABLE', q, '-', 'INCONCLUSIVE(a subtag is examined after one that was not consumed)')
            return
        if last and not tok.consumed and st.end[0] == 'head' and not [x for x in st.stores if x[2] is tok]:
            # examined (its class narrowed by the tests that failed), neither consumed nor stored: the same element is under the cursor when the
            # next segment starts, with what this path has learned about it (PX carries the cursor element across the cut) - judged there
            self.defer(st, tok, q, work)
            return
        rows = self.spec[self.base(q)]
        if tok.present == 'neg':
            for r in rows:
                if r.name == 'END':
                    nq = self.check_row(sub, tok, q, r, None)
                    if last and nq is not None and st.end[0] == 'head':
                        work.append((st.end[1], nq))
            return
        S = tok.shape if tok.shape is not None else TOP
        matched = False
        for r in rows:
            if r.shape is None:
                continue
            inter = S.intersect(r.shape)
            if inter.is_empty():
                continue
            matched = True
            nq = self.check_row(sub, tok, q, r, inter)
            nq = nq if nq is not None else q
            if last:
                if st.end[0] == 'head':
                    work.append((st.end[1], nq))
            elif r.outcome in ('consume', 'skip', 'call', 'subparse', 'either', 'default-language'):
                self.run_multi(st, toks, i + 1, nq, work)
            # a row that ends the parse (yield / reject / defer) while the code goes on to the next subtag has been reported by check_row
        if not matched and not S.is_empty():
            self.add('PARSE-TABLE', q, '-', 'token class not covered by the specification table: %s' % S.describe()[:100])

    # ---- one step against one row
    def check_row(self, st, tok, q, r, inter):
        qfull, q = q, self.base(q)
        self.rows_hit.add((q, r.name))
        e = self.pa.e
        w = repr(inter.example()) if inter is not None and inter.example() is not None else None
        sp = st.seg.events[-1][3] if st.seg.events and len(st.seg.events[-1]) > 3 else None
        end = st.end
        # temporaries holding the validated text are not sinks: only stores into a named slot count
        token_stores = [(self.slots.slot_of_sink(sink), sink, val, xf) for sink, val, t2, xf, _ in st.stores if t2 is tok and self.slots.slot_of_sink(sink) is not None]
        flushes = [(sink, val) for sink, val, t2, xf, _ in st.stores if sink and len(sink) > 3 and sink[3] == 'insert' and normalise_map_slot(self.slots.slot_of_sink(sink)) == 'map']
        oc = r.outcome
        kw = r.kw
        nextq = kw.get('next')
        if end[0] == 'panic':
            self.add('PARSE-TABLE', q, r.name, 'a panic is reachable', w)
            return nextq
        # flush discipline: a pending key and its values are inserted when the next key, a yield or the end arrives - and only while a key is pending
        pending = self.is_pending(qfull)
        if pending:
            if (kw.get('flush') or end[0] == 'ok') and not flushes and end[0] != 'err':
                self.add('PARSE-FLUSH', q, r.name, 'the pending key and its values are not stored when %s arrives (a keyword/field is dropped)' % r.name, w, sp)
        elif flushes and end[0] != 'err':
            self.add('PARSE-FLUSH', q, r.name, 'a key/values pair is inserted although no key is pending in state %s' % q, w, sp)
        if kw.get('nostore'):
            for slot, sink, val, xf in [(self.slots.slot_of_sink(sink), sink, val, xf) for sink, val, t2, xf, _ in st.stores]:
                if slot == kw['nostore']:
                    self.add('PARSE-NOCLOBBER', q, r.name, '%s is stored again although one was already parsed (the earlier value is overwritten)' % kw['nostore'], w, sp)
        if oc == 'consume':
            if end[0] == 'err':
                self.add('PARSE-TABLE', q, r.name, 'a well-formed %s is rejected in state %s' % (r.name, q), w, sp)
                return nextq
            if not tok.consumed:
                if end[0] == 'ok':
                    self.add('PARSE-TABLE', q, r.name, 'a well-formed %s ends the parse in state %s instead of being consumed' % (r.name, q), w, sp)
                else:
                    self.add('PARSE-TABLE', q, r.name, 'a %s is used without being consumed from the stream' % r.name, w, sp)
                return nextq
            want = kw['slot']
            good = [x for x in token_stores if normalise_slot(x[0]) == want]
            other = [x for x in token_stores if normalise_slot(x[0]) != want]
            if not good:
                self.add('PARSE-NODROP', q, r.name, 'a consumed %s is not stored as %s (input silently dropped or misfiled)' % (r.name, want), w, sp)
            for slot, sink, val, xf in other:
                self.add('PARSE-TABLE', q, r.name, 'a %s is stored into %s (expected %s)' % (r.name, slot or sink, want), w, sp)
            role = self.roles[kw['role']]
            for slot, sink, val, xf in good:
                ok, why = sh.transforms_agree(inter, xf or ('id',), (role.transform,))
                if not ok:
                    self.add('PARSE-TABLE', q, r.name, 'stored with a normalisation other than %s: %s' % (role.transform, why), w, sp)
            return nextq
        if oc == 'skip':
            if end[0] == 'err':
                self.add('PARSE-TABLE', q, r.name, '%s is rejected' % r.name, w, sp)
            elif not tok.consumed:
                self.add('PARSE-TABLE', q, r.name, '%s is not consumed' % r.name, w, sp)
            if token_stores:
                self.add('PARSE-TABLE', q, r.name, '%s is stored (it must be dropped)' % r.name, w, sp)
            return nextq
        if oc in ('yield', 'defer', 'either', 'reject', 'finish', 'default-language'):
            if token_stores:
                self.add('PARSE-TABLE', q, r.name, 'a %s is stored in state %s (the grammar has no place for it here: input reinterpreted)' % (r.name, q), w, sp)
            if oc == 'reject':
                if end[0] != 'err':
                    self.add('PARSE-NODROP' if tok.consumed else 'PARSE-TABLE', q, r.name,
                             '%s is not rejected%s' % (r.name, ' (it is consumed and ignored)' if tok.consumed else ''), w, sp)
                elif kw.get('error') and not entry.is_const_err(end[1], kw['error']):
                    self.add('PARSE-TABLE', q, r.name, 'rejected with %s, expected %s' % (e.short(end[1], 60), kw['error']), w, sp)
                return None
            if oc == 'yield':
                if tok.consumed and tok.present != 'neg':
                    self.add('PARSE-NODROP', q, r.name, 'a %s is consumed in state %s without being stored (it must be left for the caller)' % (r.name, q), w, sp)
                elif end[0] == 'err':
                    if not (self.flag_param and st.seg.state.facts.get(('param', self.flag_param)) is False and entry.is_const_err(end[1], 'InvalidSubtag')):
                        self.add('PARSE-YIELD', q, r.name, 'a %s in state %s is an error; it must end this part of the parse and be left for the caller' % (r.name, q), w, sp)
                elif end[0] == 'head':
                    self.add('PARSE-YIELD', q, r.name, 'a %s in state %s does not end this part of the parse' % (r.name, q), w, sp)
                return None
            if oc == 'defer':
                if kw.get('allow_subparse') and [c for c in st.subcalls if c[0] in self.core_fns]:
                    # handing the subtag to the nested language-identifier parser is a rejection too: its own table (state L0)
                    # rejects every first subtag that is not a language subtag
                    return 'TL' if end[0] == 'head' else None
                if tok.consumed and end[0] != 'err':
                    self.add('PARSE-NODROP', q, r.name, 'a malformed subtag is consumed and ignored', w, sp)
                if end[0] == 'head':
                    self.add('PARSE-TABLE', q, r.name, 'a malformed subtag neither ends the parse nor is rejected', w, sp)
                return None
            if oc == 'either':
                if kw.get('no_early_ok') and end[0] == 'ok':
                    # "accepted as if the emptiness were absent": an empty subtag may be skipped or rejected, but the parse must not stop there
                    self.add('PARSE-NODROP', q, r.name, 'the parse ends successfully at an empty subtag: whatever follows it is silently ignored', w, sp)
                if kw.get('selfread') and end[0] == 'err':
                    self.add('PARSE-SELFREAD', q, r.name, 'an empty first subtag is rejected: the extension map does not read back its own Display output, which starts with a separator '
                             '("-u-ca-buddhist": Locale::into_parts, the string locale! parses at run time)', w, sp)
                if end[0] == 'head':
                    return nextq if nextq else qfull
                return None
            if oc in ('finish', 'default-language'):
                if oc == 'finish' and end[0] != 'ok':
                    self.add('PARSE-TABLE', q, r.name, 'end of input is not accepted', w, sp)
                return nextq
        if oc in ('call', 'subparse'):
            subs = st.subcalls
            if oc == 'subparse':
                good = [c for c in subs if c[0] in self.core_fns]
            else:
                good = [c for c in subs if c[0] in self.sub_fns.get(kw['sub'], ())]
            if end[0] == 'err':
                # an error is acceptable only as propagation of the sub-parser's error (or the no-clobber rejection)
                if not good and not self.noclobber_reject(st, kw):
                    self.add('PARSE-TABLE', q, r.name, '%s is rejected without consulting its parser' % r.name, w, sp)
                return None
            if oc == 'subparse' and tok.consumed:
                self.add('PARSE-TABLE', q, r.name, 'the first subtag of the nested language identifier is consumed before the nested parser runs', w, sp)
            if not good:
                self.add('PARSE-NODROP' if tok.consumed else 'PARSE-TABLE', q, r.name, '%s does not start its parser%s' % (r.name, ' (consumed and ignored)' if tok.consumed else ''), w, sp)
                return nextq if nextq else (q if end[0] == 'head' else None)
            if oc == 'subparse':
                flag = good[0][1][2][1] if len(good[0][1][2]) > 1 else None
                if flag != ('int', 1):
                    self.add('PARSE-TABLE', q, r.name, 'the nested language identifier is parsed with allow_extension = %s' % e.short(flag), w, sp)
            stored = [(self.slots.slot_of_sink(sink), val) for sink, val, t2, xf, _ in st.stores if terms.find_terms(val, lambda t: t[0] == 'pos' and t[1][0] in ('call', 'pure') and t[1][1] == good[0][0])]
            if not [x for x in stored if x[0] == kw['slot']]:
                self.add('PARSE-NODROP', q, r.name, 'the result of the %s parser is not stored in its slot' % kw.get('sub', 'nested'), w, sp)
            if oc == 'call' and not kw.get('last') and not self.slot_known_empty(st, kw['slot']):
                self.add('PARSE-NOCLOBBER', q, r.name, 'a repeated %s overwrites the extension parsed earlier (no check that none was parsed yet)' % r.name, w, sp)
            return nextq if nextq else qfull
        return nextq

    def noclobber_reject(self, st, kw):
        return kw.get('slot') is not None and self.slot_known_nonempty(st, kw['slot'])

    def slot_emptiness_facts(self, st, slot):
        out = []
        for k, v in st.seg.facts.items():
            if k[0] == 'pure' and k[1].split('::')[-1] == 'is_empty' and len(k[2]) == 1:
                x = k[2][0]
                while x[0] in ('ref', 'cref') and isinstance(x[1], tuple):
                    x = x[1]
                sink = parse.sink_of_place(self.pa.e, x) if x[0] in ('L', 'F') else None
                lp = lv_path(x)
                if lp is not None:
                    sink = lp                                   # loop-carried value of local.field...
                if sink is not None and self.slots.slot_of_sink(sink) == slot:
                    out.append(v)
            if k[0] == 'tag':
                x = k[1]
                while x[0] in ('ref', 'cref', 'init', 'optref') and isinstance(x[1], tuple):
                    x = x[1]
                sink = parse.sink_of_place(self.pa.e, x) if x[0] in ('L', 'F') else None
                lp = lv_path(x)
                if lp is not None:
                    sink = lp
                if sink is not None and self.slots.slot_of_sink(sink) == slot:
                    out.append(v == 'neg')
        return out

    def slot_known_empty(self, st, slot):
        f = self.slot_emptiness_facts(st, slot)
        return bool(f) and all(f)

    def slot_known_nonempty(self, st, slot):
        f = self.slot_emptiness_facts(st, slot)
        return bool(f) and not all(f)


def lv_path(x):
    """('L', local, field path) designated by a loop-carried value term: fld(..fld(lv(key), i).., j)"""
    path = []
    while isinstance(x, tuple) and x and x[0] == 'fld' and isinstance(x[2], int):
        path.append(x[2])
        x = x[1]
    if isinstance(x, tuple) and x and x[0] == 'lv' and isinstance(x[1], tuple) and x[1]:
        return ('L', x[1][0], tuple(x[1][1:]) + tuple(reversed(path)))
    return None


def normalise_slot(s):
    return s
