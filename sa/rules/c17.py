"""C17 — decomposition and raw-representation round trips (DESIGN §4.17)."""
from .. import px as pxm, terms, ts
from . import common, pair, validators, c10

LI = 'unic_langid_impl::LanguageIdentifier'


def method(prog, crate, ty, name):
    return sorted(n for n, b in prog.bodies.items() if n.startswith(crate + '::') and b['kind'] == 'AssocFn' and b.get('impl') and not b['impl']['trait']
                  and b['impl']['self_ty'].split('::')[-1] == ty and n.endswith('::' + name))


def langid_parts(prog, rep):
    facts = prog.facts
    fs = terms.struct_fields(facts, LI) or []
    nfields = len(fs)
    n = 0
    for fn in method(prog, 'unic_langid_impl', 'LanguageIdentifier', 'into_parts'):
        n += 1
        b = prog.bodies[fn]
        e = pxm.PX(prog)
        segs = e.explore(fn)
        bad = []
        for s in segs:
            if s.kind != 'return' or s.ret[0] != 'tuple' or len(s.ret[1]) != nfields:
                bad.append('result is not a %d-tuple: %s' % (nfields, e.short(s.ret, 160)))
                continue
            for i, c in enumerate(s.ret[1]):
                if i < nfields - 1:
                    if terms.access_path(c) != (1, (i,)):
                        bad.append('component %d is %s, not the %s field' % (i, e.short(c, 80), fs[i]['name']))
                else:
                    tag = s.state.facts.get(('tag', ('fld', ('param', 1), i)))
                    if tag == 'neg':
                        if not (c[0] == 'pure' and (c[1].endswith('Vec::<T>::new') or c[1] in ('Vec::new', 'default') or c[1].endswith('::with_capacity'))):
                            bad.append('no variants must decompose to an empty list: %s' % e.short(c, 100))
                    elif tag == 'pos':
                        ap = terms.access_path(c[2][0]) if c[0] == 'pure' and c[1].split('::')[-1] in ('to_vec', 'into_vec', 'to_owned', 'clone', 'into', 'from') and c[2] else None
                        if not (ap and ap[0] == 1 and terms.strip_some(ap[1])[:1] == (i,)):
                            bad.append('the variant list is not a copy of the stored variants: %s' % e.short(c, 120))
                    else:
                        bad.append('variants not tested on this path')
        rep.ob('parts:LanguageIdentifier::into_parts', 'PAIR-PARTS', fn, b['span'], 'into_parts returns (language, script, region, variants) field by field', not bad and segs, detail='\n'.join(sorted(set(bad))[:4]))
    for fn in method(prog, 'unic_langid_impl', 'LanguageIdentifier', 'from_parts'):
        n += 1
        b = prog.bodies[fn]
        e = pxm.PX(prog)
        segs = e.explore(fn)
        bad = []
        for s in segs:
            r = s.ret
            if s.kind != 'return' or r[0] != 'adt' or r[2] != 'LanguageIdentifier' or len(r[3]) != nfields:
                bad.append('result not a LanguageIdentifier aggregate: %s' % e.short(r, 160))
                continue
            for i in range(nfields - 1):
                if r[3][i] != ('param', i + 1):
                    bad.append('field %s is not argument %d' % (fs[i]['name'], i + 1))
            v = r[3][nfields - 1]
            if not (v[0] == 'adt' and v[2] == 'None'):
                base = terms.find_terms(v, lambda t: t[0] == 'pure' and t[1].endswith('::to_vec'))
                ap = terms.access_path(base[0][2][0]) if base else None
                if not (ap and ap[0] == nfields):
                    src = ts.content_source(e, v)
                    ap = terms.access_path(src) if src is not None else None
                if not (ap and ap[0] == nfields):
                    bad.append('stored variants are not built from the variants argument: %s' % e.short(v, 140))
        rep.ob('parts:LanguageIdentifier::from_parts', 'PAIR-PARTS', fn, b['span'], 'from_parts stores its arguments field by field (variants through sort + dedup: TS-CTOR)', not bad and segs,
               detail='\n'.join(sorted(set(bad))[:4]))
    return n


def locale_parts(prog, rep):
    n = 0
    li_into = method(prog, 'unic_langid_impl', 'LanguageIdentifier', 'into_parts')
    li_from = method(prog, 'unic_langid_impl', 'LanguageIdentifier', 'from_parts')
    for fn in method(prog, 'unic_locale_impl', 'Locale', 'into_parts'):
        n += 1
        b = prog.bodies[fn]
        e = pxm.PX(prog, opaque=set(li_into))
        segs = e.explore(fn)
        bad = []
        for s in segs:
            r = s.ret
            if s.kind != 'return' or r[0] != 'tuple' or len(r[1]) != 5:
                bad.append('result is not a 5-tuple: %s' % e.short(r, 160))
                continue
            for i in range(4):
                c = r[1][i]
                ok = c[0] == 'fld' and c[2] == i and c[1][0] in ('call', 'pure') and c[1][1] in li_into and terms.access_path(c[1][2][0]) == (1, (0,))
                if not ok:
                    bad.append('component %d is not part %d of self.id.into_parts(): %s' % (i, i, e.short(c, 100)))
            x = r[1][4]
            ok = x[0] in ('call', 'pure') and x[1].endswith('ToString>::to_string') and terms.access_path(x[2][0]) == (1, (1,))
            if not ok:
                bad.append('the last component is not self.extensions.to_string(): %s' % e.short(x, 100))
        rep.ob('parts:Locale::into_parts', 'PAIR-PARTS', fn, b['span'], 'Locale::into_parts passes the identifier\'s parts through in order and adds extensions.to_string()', not bad and segs,
               detail='\n'.join(sorted(set(bad))[:4]))
    for fn in method(prog, 'unic_locale_impl', 'Locale', 'from_parts'):
        n += 1
        b = prog.bodies[fn]
        e = pxm.PX(prog, opaque=set(li_from))
        segs = e.explore(fn)
        bad = []
        for s in segs:
            r = s.ret
            if s.kind != 'return' or r[0] != 'adt' or r[2] != 'Locale' or len(r[3]) != 2:
                bad.append('result not a Locale aggregate: %s' % e.short(r, 160))
                continue
            idv, ext = r[3]
            ok = idv[0] in ('call', 'pure') and idv[1] in li_from and tuple(idv[2][:4]) == tuple(('param', i) for i in range(1, 5))
            if not ok:
                bad.append('id is not LanguageIdentifier::from_parts(language, script, region, variants): %s' % e.short(idv, 140))
            tag = s.state.facts.get(('tag', ('param', 5)))
            if tag == 'pos' and ext != ('pos', ('param', 5)):
                bad.append('given extensions are not stored as they are')
            from . import c13
            if tag == 'neg' and not (ext[0] == 'pure' and ext[1] == 'default') and not (c13.default_struct(ext) and ext[0] != 'lv'):
                bad.append('absent extensions are not the default')
        rep.ob('parts:Locale::from_parts', 'PAIR-PARTS', fn, b['span'], 'Locale::from_parts = {id: LanguageIdentifier::from_parts(..), extensions: given or default}', not bad and segs,
               detail='\n'.join(sorted(set(bad))[:4]))
    return n


def run(tier, replay=None):
    rep = common.new_report('C17', tier, 'other')
    prog = common.program('K0')
    rep.count('configuration', 'K0 (%d bodies)' % len(prog.bodies))
    pair.raw_encoding(prog, rep)
    n = langid_parts(prog, rep) + locale_parts(prog, rep)
    rep.floor('into_parts / from_parts bodies', n, 4)
    nctor = c10.representation_obligations(rep)
    validators.run_all(prog, rep)
    try:
        from . import c05
        c05.roundtrip_obligations(prog, rep)
    except ImportError:
        rep.notes.append('the re-parse of the extension string (ExtensionsMap::from_str on its own Display output) is the round-trip clause of C05')
    # values built by the compile-time macros belong to this property's domain as well: the macro witnesses of C16 (cached per tree)
    from . import c16
    c16.witness_family(rep, tier)
    rep.explanation = ('(1) From<subtag> for uN and from_raw_unchecked are inverse packings: same byte order, the whole TinyStr width, nothing else applied to the integer, hence injective; '
                       '(2) into_parts / from_parts wire the fields straight through in order, from_parts re-establishes sorted, duplicate-free, None-when-empty variants for any order and duplication; '
                       '(3) every subtag validator is exact and normalising, so the parts of a parsed value are valid arguments and re-validating stored text is the identity. '
                       'Equality on concrete values is not executed.')
    rep.assumptions = ['TinyAsciiStr::all_bytes / from_bytes_unchecked expose / take the raw N bytes (tinystr 0.7.6)', 'to_le_bytes/from_le_bytes are inverse (std)']
    return rep.finish()
