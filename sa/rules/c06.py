"""C06 — maximize returns the CLDR likely-subtags answer for every input (DESIGN §4.6)."""
from . import common, tables, likely, pair


def run(tier, replay=None):
    rep = common.new_report('C06', tier, 'proof')
    prog = common.program('K1')
    rep.count('configuration', 'K1 (likelysubtags): %d bodies' % len(prog.bodies))
    ct, exp, order, nrows = tables.likely(prog, rep)
    pair.raw_encoding(prog, rep)
    res = likely.check_maximize(prog, rep, ct, order)
    mx = likely.find_likely_fn(prog, 'maximize')
    m = likely.check_method(prog, rep, 'maximize', mx)
    # the lookups key on "the language is und" (Language(None)) and on the integer forms of the stored text: every spelling of und must be stored as None and every
    # subtag in its one canonical form (subtag validators, shared with C15); both method wrappers write the result back (the property speaks of maximizing the minimized form)
    from . import validators, subtag_api
    validators.run_all(common.program('K1'), rep, roles_wanted={'Language', 'Script', 'Region', 'Variant'})
    subtag_api.language_empty(common.program('K1'), rep, validators.load_roles())
    rep.floor('LanguageIdentifier::maximize bodies', len(m), 1)
    rep.floor('likely-subtags rows', nrows, 8219)
    rep.count('table rows compared with CLDR', nrows)
    rep.count('maximize decision paths / distinct lookups', '%d / %d' % (res['paths'], res['lookups']))
    # the feature that selects this code must be reachable from the crate a user enables it on (manifest wiring)
    from .. import features
    features.check(rep)
    # values built by the compile-time macros belong to this property's domain as well: the macro witnesses of C16 (cached per tree)
    from . import c16
    c16.witness_family(rep, tier)
    rep.explanation = ('Composition: (a) every table equals the CLDR data row for row and is strictly sorted in the order of the binary search (data rules, exhaustive); '
                       '(b) the lookup cascade read from the MIR of likelysubtags::maximize equals the decision list of the property for each of the 8 presence patterns: '
                       'which table, keyed by the integer forms of which parameters, in which order, first hit returned, row value decoded with the tables\' byte order, '
                       'given subtags kept; (c) the integer encoders/decoders are inverse full-width packings; (d) the method writes the triple back. '
                       'Hence for a CLDR key K the first applicable table is K\'s own, the search finds its row, and the value is CLDR\'s.')
    rep.assumptions = ['slice::binary_search_by_key finds an element with the given key in a slice strictly sorted by that key (std contract)',
                       'derived Ord on tuples of integer references is lexicographic (std)']
    return rep.finish()
