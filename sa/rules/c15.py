"""C15 — each subtag type accepts exactly its UTS #35 production and normalises case (DESIGN §4.15)."""
from . import common, validators, subtag_api


def run(tier, replay=None):
    rep = common.new_report('C15', tier, 'proof')
    prog = common.program('K0')
    rep.count('configuration', 'K0 (%d bodies)' % len(prog.bodies))
    results, found = validators.run_all(prog, rep, roles_wanted={'Language', 'Script', 'Region', 'Variant'})
    rep.floor('subtag validators', len(results), 4)
    rep.floor('validator result sites', sum(r.ok_sites + r.err_sites for r in results.values()), 14)
    rep.count('validators', ', '.join(sorted(validators.short_fn(f) for f in results)))
    subtag_api.run(prog, rep)
    # values built by the compile-time macros belong to this property's domain as well: the macro witnesses of C16 (cached per tree)
    from . import c16
    c16.witness_family(rep, tier)
    rep.explanation = ('Abstract interpretation of each validator body over an exact domain of byte-string shapes: the union of '
                       'shapes at accepting returns is compared with the UTS #35 production (both inclusions), payload transforms '
                       'and error constants are read from the return value origins; quantifies over all byte strings.')
    rep.assumptions = ['TinyAsciiStr::from_bytes(v) is Ok iff len(v) <= N and every byte is in 0x01..=0x7F (tinystr 0.7.6 ascii.rs)',
                       'tinystr is_ascii_* on the empty string is vacuously true']
    return rep.finish()
