"""C15 (second half): the API surface of the four subtag types exposes exactly the stored text (DESIGN §4.15)."""
from .. import px as pxm
from . import validators

SUBTAGS = ('Language', 'Script', 'Region', 'Variant')


def impl_fns(facts, adt_suffix, trait_pat=None, name=None, crate='unic_langid_impl'):
    out = []
    for n, b in facts.bodies.items():
        if not n.startswith(crate + '::') or not b.get('impl'):
            continue
        im = b['impl']
        if not im['self_ty'].endswith(adt_suffix):
            continue
        if trait_pat is not None and trait_pat not in im['trait']:
            continue
        if trait_pat is None and im['trait']:
            continue
        if name is not None and not n.endswith('::' + name):
            continue
        if b['kind'] != 'AssocFn':
            continue
        out.append(n)
    return sorted(out)


def self_text(v, depth=0):
    """'self' if the text designated by v is field 0 of *arg1 (through Option/deref/as_str wrappers),
    ('lit', bytes) for a string literal, else None"""
    if depth > 12 or not isinstance(v, tuple):
        return None
    k = v[0]
    if k in ('ref', 'cref', 'pos', 'optref', 'init'):
        return self_text(v[1], depth + 1)
    if k == 'pure' and v[1].split('::')[-1] in ('deref', 'as_str', 'as_ref', 'as_bytes', 'borrow') and v[2]:
        return self_text(v[2][0], depth + 1)
    if k == 'pure' and v[1].endswith('TinyAsciiStr::<N>::as_str'):
        return self_text(v[2][0], depth + 1)
    if k in ('D',):
        return self_text(v[1], depth + 1)
    if k == 'F':
        if v[1] == ('P', ('param', 1)) and v[2] == 0:
            return 'self'
        if v[2] == 0:
            return self_text(v[1], depth + 1)
        return None
    if k == 'STR':
        return ('lit', v[1])
    if k == 'str':
        return ('lit', v[1])
    if k == 'P':
        return self_text(v[1], depth + 1) if v[1][0] != 'param' else None
    return None


def self_empty_fact(st):
    """tag fact about field 0 of *arg1: 'pos' / 'neg' / None"""
    for a, t in st.facts.items():
        if a[0] == 'tag' and a[1] in (('init', ('F', ('P', ('param', 1)), 0)),):
            return t
    return None


def run(prog, rep):
    facts = prog.facts
    roles = validators.load_roles()
    n_fromstr = n_asstr = n_disp = n_eq = 0
    for role in SUBTAGS:
        suffix = '::' + role
        optional = roles[role].optional and role == 'Language'
        # --- FromStr delegates to the validator (same exact accept set, same payload)
        for fn in impl_fns(facts, suffix, 'std::str::FromStr', 'from_str'):
            n_fromstr += 1
            validators.analyse(prog, fn, roles[role], rep, keytag='fromstr')
        # --- as_str / Display / PartialEq expose the stored text
        for fn in impl_fns(facts, suffix, None, 'as_str'):
            n_asstr += 1
            e = pxm.PX(prog)
            segs = e.explore(fn)
            bad = []
            for s in segs:
                if s.kind != 'return':
                    bad.append('path ends in %s' % s.kind)
                    continue
                bad.extend(text_rule(e, s, s.ret, optional))
            rep.ob('expose:%s:as_str' % role, 'EXPOSE', fn, facts.bodies[fn]['span'],
                   '%s::as_str returns the stored text%s' % (role, ' ("und" iff empty)' if optional else ''), not bad and segs,
                   detail='\n'.join(bad), how='%d paths' % len(segs))
        for fn in impl_fns(facts, suffix, 'std::fmt::Display', 'fmt'):
            n_disp += 1
            e = pxm.PX(prog)
            segs = e.explore(fn)
            bad = []
            for s in segs:
                if s.kind != 'return':
                    bad.append('path ends in %s' % s.kind)
                    continue
                writes = [ev for ev in s.events if ev[0] == 'call' and ('::write_' in ev[1] or ev[1].endswith('::fmt') or 'Formatter' in ev[1])]
                if len(writes) != 1 or not writes[0][1].endswith('::write_str'):
                    bad.append('expected exactly one write_str, found %s' % [w[1].split('::')[-1] for w in writes])
                    continue
                bad.extend(text_rule(e, s, writes[0][2][1], optional))
                if not (s.ret and s.ret[0] == 'call' and s.ret[1] == writes[0][1]):
                    bad.append('fmt does not return the result of its write: %s' % e.short(s.ret))
            rep.ob('expose:%s:display' % role, 'EXPOSE', fn, facts.bodies[fn]['span'],
                   'Display for %s writes the stored text%s and nothing else' % (role, ' ("und" iff empty)' if optional else ''), not bad and segs,
                   detail='\n'.join(bad), how='%d paths' % len(segs))
        for fn in impl_fns(facts, suffix, 'std::cmp::PartialEq<', 'eq'):
            im = facts.bodies[fn]['impl']
            if 'str>' not in im['trait']:
                continue
            n_eq += 1
            e = pxm.PX(prog)
            segs = e.explore(fn)
            bad = []
            for s in segs:
                if s.kind != 'return':
                    bad.append('path ends in %s' % s.kind)
                    continue
                r = s.ret
                if not (r and r[0] == 'pure' and r[1] == 'eq'):
                    bad.append('result is not a string comparison: %s' % e.short(r))
                    continue
                a, b = r[2]
                sides = [x for x in (a, b) if not involves_param(x, 2)]
                others = [x for x in (a, b) if involves_param(x, 2)]
                if len(sides) != 1 or len(others) != 1:
                    bad.append('comparison operands are not (own text, argument): %s' % e.short(r))
                    continue
                bad.extend(text_rule(e, s, sides[0], optional))
                if not is_arg_text(others[0]):
                    bad.append('the stored text is not compared with the argument itself but with a value computed from it (truncation, padding, re-encoding ...): %s' % e.short(others[0], 160))
            rep.ob('expose:%s:eq:%s' % (role, 'refstr' if '&str' in im['trait'] else 'str'), 'EXPOSE', fn, facts.bodies[fn]['span'],
                   '%s == string compares the stored text%s with the argument' % (role, ' ("und" iff empty)' if optional else ''), not bad and segs,
                   detail='\n'.join(bad), how='%d paths' % len(segs))
    rep.floor('FromStr impls of subtag types', n_fromstr, 4)
    rep.floor('as_str / Display / PartialEq<str> of subtag types', n_asstr + n_disp + n_eq, 12)
    language_empty(prog, rep, roles)


def is_arg_text(v, depth=0):
    """v designates the string argument (parameter 2) itself, through references / deref / as_str / as_bytes only"""
    if depth > 12 or not isinstance(v, tuple) or not v:
        return False
    k = v[0]
    if k == 'param':
        return v[1] == 2
    if k in ('ref', 'cref', 'init', 'P'):
        return is_arg_text(v[1], depth + 1)
    if k == 'pure' and v[1].split('::')[-1] in ('deref', 'as_str', 'as_ref', 'as_bytes', 'borrow') and len(v[2]) == 1:
        return is_arg_text(v[2][0], depth + 1)
    return False


def involves_param(v, i):
    if not isinstance(v, tuple):
        return False
    if v == ('param', i):
        return True
    return any(involves_param(x, i) for x in v if isinstance(x, tuple))


def text_rule(e, s, textval, optional):
    """the text must be the stored text; for Language the literal "und" exactly when the stored option is None"""
    bad = []
    o = self_text(textval)
    fact = self_empty_fact(s.state)
    if o == 'self':
        if optional and fact != 'pos':
            bad.append('stored text used on a path where the language is not known to be present')
    elif isinstance(o, tuple) and o[0] == 'lit':
        if not optional:
            bad.append('literal %r used instead of the stored text' % o[1])
        elif o[1] != b'und':
            bad.append('empty language rendered as %r, not "und"' % o[1])
        elif fact != 'neg':
            bad.append('"und" used on a path where the language is not known to be empty')
    else:
        bad.append('text origin not the stored subtag: %s' % e.short(textval))
    return bad


def is_empty_language(v):
    return v and v[0] == 'adt' and v[2] == 'Language' and len(v[3]) == 1 and v[3][0][0] == 'adt' and v[3][0][2] == 'None'


def language_empty(prog, rep, roles):
    facts = prog.facts
    # default()
    for fn in impl_fns(facts, '::Language', 'std::default::Default', 'default'):
        e = pxm.PX(prog)
        segs = e.explore(fn)
        ok = segs and all(s.kind == 'return' and is_empty_language(s.ret) for s in segs)
        rep.ob('empty:Language:default', 'EMPTY-LANG', fn, facts.bodies[fn]['span'], 'Language::default() is the empty language', ok,
               detail='returns %s' % [e.short(s.ret) for s in segs])
    # clear()
    n = 0
    for fn in impl_fns(facts, '::Language', None, None):
        b = facts.bodies[fn]
        if not (b['sig'] and b['sig']['inputs'] == ['&mut subtags::language::Language'] and b['sig']['output'] == '()'):
            continue
        n += 1
        e = pxm.PX(prog)
        segs = e.explore(fn)
        ok = bool(segs)
        for s in segs:
            st = [ev for ev in s.events if ev[0] == 'store']
            field_none = len(st) == 1 and st[0][1] == ('F', ('P', ('param', 1)), 0) and st[0][2][0] == 'adt' and st[0][2][2] == 'None'
            whole_empty = len(st) == 1 and st[0][1] == ('P', ('param', 1)) and is_empty_language(st[0][2])      # *self = Self::default() / Self(None)
            if not (s.kind == 'return' and (field_none or whole_empty)):
                ok = False
        rep.ob('empty:Language:clear:%s' % fn.split('::')[-1], 'EMPTY-LANG', fn, b['span'], 'Language::%s(&mut self) leaves the empty language' % fn.split('::')[-1], ok,
               detail='stores: %s' % [[(e.fmt(ev[1]), e.short(ev[2])) for ev in s.events if ev[0] == 'store'] for s in segs])
    # TryFrom<Option<T>>
    m = 0
    for fn in impl_fns(facts, '::Language', 'std::convert::TryFrom<std::option::Option<', 'try_from'):
        m += 1
        e = pxm.PX(prog)
        segs = e.explore(fn)
        none_paths = [s for s in segs if s.state.facts.get(('tag', ('param', 1))) == 'neg']
        ok = none_paths and all(s.kind == 'return' and s.ret[0] == 'adt' and s.ret[2] == 'Ok' and is_empty_language(s.ret[3][0]) for s in none_paths)
        rep.ob('empty:Language:tryfrom-none', 'EMPTY-LANG', fn, facts.bodies[fn]['span'], 'Language::try_from(None) is Ok(empty language)', ok,
               detail='returns %s' % [e.short(s.ret) for s in none_paths])
        validators.analyse(prog, fn, roles['Language'], rep, keytag='tryfrom-some',
                           seg_filter=lambda ee, s: s.state.facts.get(('tag', ('param', 1))) == 'pos')
    rep.floor('Language default/clear/TryFrom', n + m + 1, 3)
