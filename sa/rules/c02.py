"""C02 — LanguageIdentifier parsing accepts exactly the well-formed language identifiers (DESIGN §4.2)."""
from .. import px as pxm, terms
from . import common, validators, subtag_api, entry, parserules, parsetables, c13, mutators as mu, c10

LI = 'unic_langid_impl'


def disjoint_classes(rep):
    sp, roles = parserules.specs()
    ds = sp['core']['disjoint']
    for i, (n1, s1) in enumerate(ds):
        for n2, s2 in ds[i + 1:]:
            inter = s1.intersect(s2)
            rep.ob('disjoint:%s:%s' % (n1, n2), 'SHAPE-DISJOINT', '-', '-', 'the %s and %s productions are disjoint (the order in which the parser tries them is immaterial)' % (n1, n2),
                   inter.is_empty(), detail='both contain e.g. %r' % inter.example() if not inter.is_empty() else '')


def fromstr_delegation(prog, rep, crate, ty):
    fs = [n for n, b in prog.bodies.items() if b.get('impl') and b['impl']['self_ty'].split('::')[-1] == ty and 'str::FromStr' in b['impl']['trait'] and n.endswith('::from_str') and n.startswith(crate)]
    core, disp = c13.parsers(prog)
    for fn in fs:
        bad, npaths = c13.wiring_paths(prog, fn, 0 if ty == 'LanguageIdentifier' else 1, core, disp)
        rep.ob('fromstr:%s' % ty, 'PAIR-FROMSTR', fn, prog.bodies[fn]['span'], 'FromStr for %s parses the bytes of the whole string with the same parser as from_bytes' % ty, not bad,
               detail='\n'.join(bad[:4]), how='%d paths' % npaths)
    return len(fs)


def run(tier, replay=None):
    rep = common.new_report('C02', tier, 'proof')
    prog = common.program('K0')
    rep.count('configuration', 'K0 (%d bodies)' % len(prog.bodies))
    results, found = validators.run_all(prog, rep, roles_wanted={'Language', 'Script', 'Region', 'Variant'})
    rep.floor('subtag validators', len(results), 4)
    core = entry.core_parser(prog)
    nsep = entry.check_separators(prog, rep, [('LanguageIdentifier::from_bytes', f, core) for f in entry.find_method(prog, LI, 'LanguageIdentifier', 'from_bytes')])
    rep.floor('split predicates analysed', nsep, 1)
    tc = parserules.check(prog, rep, 'core')
    if tc is not None:
        rep.count('core parser: steps / (head,state) pairs / rows exercised', '%d / %d / %d' % (tc.nsteps, len(tc.pairs), len(tc.rows_hit)))
        rep.floor('core parser table rows exercised', len(tc.rows_hit), 14)
    disjoint_classes(rep)
    c13.wiring(prog, rep)
    c13.allow_extension_once(prog, rep, core)
    allinv = mu.invariant_fields(prog.facts)
    n = 0
    for fn in core:
        n += mu.check_constructor(prog, fn, 'LanguageIdentifier', allinv, rep, c10.EXEMPT_CTORS)
    rep.floor('core parser result typestate', n, 1)
    from . import c04
    c04.canonicalize_shape(prog, rep, only='unic_langid_impl')
    nf = fromstr_delegation(prog, rep, LI, 'LanguageIdentifier')
    rep.floor('FromStr impl', nf, 1)
    rep.explanation = ('from_bytes(s) = core(split(s, {-,_}), allow_extension=false).  (1) the split predicate is exactly {-,_} (byte-set analysis); (2) each of the four subtag validators accepts exactly its '
                       'production and stores the specified case form, with the specified error (abstract interpretation over all byte strings); (3) the core parser\'s transition table, extracted from '
                       'its MIR with exact token shapes, equals the specification table A.1 in every state: which class is consumed into which slot, which ends the parse, first subtag not a language => '
                       'InvalidLanguage, leftover subtag => InvalidSubtag; the productions tried in sequence are pairwise disjoint; (4) variants end sorted, duplicate-free, None when empty; '
                       '(5) from_bytes returns the core result / error kind unchanged. Composition (tokens = split(input)) is slice::split\'s contract.')
    rep.assumptions = ['slice::split yields the maximal runs between separator bytes, including empty ones (std)']
    return rep.finish()
