"""C19 — serde form is the canonical string and round-trips (DESIGN §4.19), configuration K2 (feature serde)."""
import re
from .. import px as pxm, terms, models
from . import common, validators

LI = 'LanguageIdentifier'


def calls_of(s):
    return [ev for ev in s.state.events if ev[0] == 'call']


def is_self_string(e, v):
    """deref/as_str/borrow wrappers around ToString::to_string(self)"""
    x = v
    for _ in range(8):
        if x[0] in ('ref', 'cref'):
            x = x[1] if x[0] == 'cref' else x
            if x[0] == 'ref':
                return None
        elif x[0] == 'pure' and x[1].split('::')[-1] in ('deref', 'as_str', 'as_ref', 'borrow') and len(x[2]) == 1:
            x = x[2][0]
        else:
            break
    return x


def is_display_format_of_self(e, s, v):
    """v is (a view of) format!("{}", self): fmt::format(Arguments::new(<template with one placeholder and no text>, [Argument::new_display(self)]))"""
    from .. import emit
    x = v
    for _ in range(10):
        if x[0] in ('ref', 'cref'):
            try:
                x = e.deref_value(s.state, x) if x[0] == 'ref' else x[1]
            except Exception:
                return False
        elif x[0] == 'pure' and x[1].split('::')[-1] in ('deref', 'as_str', 'as_ref', 'borrow') and len(x[2]) == 1:
            x = x[2][0]
        else:
            break
    if not (x[0] == 'pure' and re.search(r'(^|::)fmt::format$', x[1]) and len(x[2]) == 1):
        return False
    a = x[2][0]
    while a[0] == 'cref':
        a = a[1]
    if not (a[0] == 'pure' and a[1].endswith("Arguments::<'a>::new") and len(a[2]) == 2):
        return False
    tpl, arr = a[2]
    tb = tpl[1][1] if tpl[0] == 'ref' and tpl[1][0] == 'MEM' else None
    pieces = emit.template_pieces(tb) if tb is not None else None
    while arr[0] in ('cref', 'ref') and isinstance(arr[1], tuple):
        arr = arr[1]
    if pieces != [('arg',)] or arr[0] != 'array' or len(arr[1]) != 1:
        return False
    fa = arr[1][0]
    if not (fa[0] == 'pure' and fa[1].endswith('new_display') and len(fa[2]) == 1):
        return False
    who = fa[2][0]
    for _ in range(4):
        if who[0] in ('ref', 'cref') and isinstance(who[1], tuple):
            who = e.deref_value(s.state, who) if who[0] == 'ref' and who[1][0] == 'L' else who[1]
        else:
            break
    return who == ('param', 1) or terms.access_path(fa[2][0]) == (1, ())


def entry_core(prog):
    from . import entry
    return entry.core_parser(prog)


def run(tier, replay=None):
    rep = common.new_report('C19', tier, 'other')
    prog = common.program('K2')
    facts = prog.facts
    rep.count('configuration', 'K2 (unic-langid-impl with serde): %d bodies' % len(prog.bodies))
    ser = [im for im in facts.impls if im['trait_def'].endswith('serde::Serialize') and im['self_ty'] == LI]
    de = [im for im in facts.impls if im['trait_def'].endswith('serde::Deserialize') and im['self_ty'] == LI]
    rep.floor('Serialize / Deserialize impls for LanguageIdentifier', len(ser) + len(de), 2)
    analysed = []
    # ---- Serialize
    for im in ser:
        for fn in [i for i in im['items'] if i in prog.bodies]:
            analysed.append(fn)
            b = prog.bodies[fn]
            e = pxm.PX(prog)
            segs = e.explore(fn)
            bad = []
            for s in segs:
                if s.kind != 'return':
                    bad.append('path ends in %s' % s.kind)
                    continue
                r = s.ret
                if not (r[0] == 'call' and re.search(r'Serializer::serialize_str$', r[1]) and len(r[2]) == 2):
                    bad.append('result is not serializer.serialize_str(..): %s' % e.short(r, 200))
                    continue
                if r[2][0] != ('param', 2):
                    bad.append('serialize_str is not called on the given serializer')
                # the string argument: to_string(self), or the equivalent format!("{}", self)
                ts_calls = [ev for ev in calls_of(s) if ev[1].endswith('as std::string::ToString>::to_string')]
                if not ts_calls and is_display_format_of_self(e, s, r[2][1]):
                    pass
                elif len(ts_calls) != 1 or ts_calls[0][2][0] != ('param', 1) or LI not in ts_calls[0][7]:
                    bad.append('the serialised text is not self.to_string()')
                else:
                    # the argument handed over must be (a view of) that string and nothing else
                    arg = r[2][1]
                    inner = terms.find_terms(arg, lambda t: t[0] == 'pure' and t[1].split('::')[-1] in ('to_lowercase', 'to_uppercase', 'replace', 'trim', 'to_ascii_lowercase', 'to_ascii_uppercase'))
                    if inner:
                        bad.append('the string is transformed before serialisation: %s' % inner[0][1])
                others = [ev[1] for ev in calls_of(s) if not re.search(r'(ToString>::to_string|Deref>::deref|Serializer::serialize_str|::as_str|AsRef.*::as_ref|Borrow.*::borrow)$', ev[1])
                          and not (is_display_format_of_self(e, s, r[2][1]) and re.search(r"(Argument::<'_>::new_display|Arguments::<'a>::new|fmt::format|hint::must_use)$", ev[1]))]
                if others:
                    bad.append('unexpected calls %s' % others[:3])
            rep.ob('serde:serialize', 'SERDE-SER', fn, b['span'], 'Serialize writes exactly self.to_string() with serialize_str', not bad and segs, detail='\n'.join(sorted(set(bad))), how='%d path(s)' % len(segs))
    # ---- Deserialize
    visitor_types = set()
    for im in de:
        for fn in [i for i in im['items'] if i in prog.bodies]:
            analysed.append(fn)
            b = prog.bodies[fn]
            e = pxm.PX(prog)
            segs = e.explore(fn)
            bad = []
            for s in segs:
                if s.kind != 'return':
                    bad.append('path ends in %s' % s.kind)
                    continue
                r = s.ret
                if not (r[0] == 'call' and re.search(r'Deserializer::deserialize_(str|string|any)$', r[1]) and len(r[2]) == 2 and r[2][0] == ('param', 1)):
                    bad.append('result is not deserializer.deserialize_str/string/any(visitor): %s' % e.short(r, 200))
                    continue
                v = r[2][1]
                if v[0] == 'adt':
                    visitor_types.add(v[1])
                else:
                    bad.append('visitor not understood: %s' % e.short(v))
                if len(calls_of(s)) != 1:
                    bad.append('unexpected calls %s' % [ev[1] for ev in calls_of(s)][:3])
            rep.ob('serde:deserialize', 'SERDE-DE', fn, b['span'], 'Deserialize hands a string visitor to deserialize_str/string/any and returns its result unchanged', not bad and segs,
                   detail='\n'.join(sorted(set(bad))), how='%d path(s)' % len(segs))
    # ---- the visitor
    vis = [im for im in facts.impls if im['trait_def'].endswith('de::Visitor') and any(vt.endswith(im['self_ty'].split('::')[-1]) for vt in visitor_types)]
    rep.floor('visitor impls', len(vis), 1)
    for im in vis:
        methods = [i for i in im['items'] if i in prog.bodies]
        names = sorted(m.split('::')[-1] for m in methods)
        extra = [n for n in names if n not in ('expecting', 'visit_str', 'visit_string', 'visit_borrowed_str')]
        rep.ob('serde:visitor:methods', 'SERDE-VISITOR', im['def'], im['span'],
               'the visitor accepts strings only (every other input falls to serde\'s default visit_*, which is an error)', not extra and 'visit_str' in names,
               detail='overridden: %s' % names, how='overrides %s' % names)
        for fn in methods:
            name = fn.split('::')[-1]
            if not name.startswith('visit_'):
                continue
            analysed.append(fn)
            b = prog.bodies[fn]
            parsers = set(n for n, bb in prog.bodies.items() if bb.get('impl') and bb['impl']['self_ty'] == LI and
                          ((not bb['impl']['trait'] and n.endswith('::from_bytes')) or ('str::FromStr' in bb['impl']['trait'] and n.endswith('::from_str'))))
            e = pxm.PX(prog, opaque=parsers)
            segs = e.explore(fn)
            bad = []
            for s in segs:
                if s.kind != 'return':
                    bad.append('path ends in %s' % s.kind)
                    continue
                r = s.ret
                ok = False
                # form (b): an explicit match on LanguageIdentifier::from_bytes(s.as_bytes()) / from_str(s)
                pc = [ev for ev in calls_of(s) if ev[1] in parsers]
                if len(pc) == 1 and terms.access_path(pc[0][2][0]) == (2, ()) and not terms.find_terms(pc[0][2][0], lambda t: t[0] == 'pure' and t[1].split('::')[-1] in ('trim', 'to_lowercase', 'to_uppercase', 'replace', 'to_ascii_lowercase')):
                    tag = [v for k, v in s.state.facts.items() if k[0] == 'tag' and k[1][0] in ('call', 'pure') and k[1][1] in parsers]
                    if tag == ['pos'] and r[0] == 'adt' and r[2] == 'Ok' and r[3][0][0] == 'pos' and r[3][0][1][0] in ('call', 'pure') and r[3][0][1][1] in parsers:
                        ok = True
                    if tag == ['neg'] and r[0] == 'adt' and r[2] == 'Err' and terms.find_terms(r, lambda t: t[0] in ('call', 'pure') and t[1].endswith('de::Error::custom')) \
                            and terms.find_terms(r, lambda t: t[0] == 'neg' and t[1][0] in ('call', 'pure') and t[1][1] in parsers):
                        ok = True
                    if ok:
                        others = [ev[1] for ev in calls_of(s) if ev[1] not in parsers and not re.search(r'(::as_bytes|de::Error::custom|Deref>::deref|::as_str|ToString>::to_string|::fmt)$', ev[1])]
                        if others:
                            bad.append('unexpected calls %s' % others[:3])
                        continue
                if r[0] == 'map_err' or (r[0] == 'pure' and r[1].endswith('map_err')):
                    inner, f = (r[1], r[2]) if r[0] == 'map_err' else (r[2][0], r[2][1])
                    pcall = [ev for ev in calls_of(s) if re.search(r'(str::<impl str>::parse|FromStr>::from_str)$', ev[1])]
                    if len(pcall) == 1 and LI in pcall[0][7] and terms.access_path(pcall[0][2][0]) == (2, ()) \
                            and f[0] == 'fn' and f[1].endswith('de::Error::custom'):
                        ok = True
                        tr = terms.find_terms(pcall[0][2][0], lambda t: t[0] == 'pure' and t[1].split('::')[-1] in ('trim', 'to_lowercase', 'to_uppercase', 'replace', 'to_ascii_lowercase'))
                        if tr:
                            ok = False
                if not ok:
                    bad.append('result is not s.parse::<LanguageIdentifier>().map_err(Error::custom) on the unchanged input: %s' % e.short(r, 240))
                others = [ev[1] for ev in calls_of(s) if not re.search(r'(str::<impl str>::parse|FromStr>::from_str|::map_err|Deref>::deref|::as_str)$', ev[1])]
                if others:
                    bad.append('unexpected calls %s' % others[:3])
            rep.ob('serde:visitor:%s' % name, 'SERDE-VISIT', fn, b['span'], '%s succeeds iff parsing the same string succeeds, with that value; the error is mapped, not swallowed' % name,
                   not bad and segs, detail='\n'.join(sorted(set(bad))), how='%d path(s)' % len(segs))
    # ---- FromStr is from_bytes on the bytes of the string (so "parsing" above is the parser of C02)
    fs = [n for n, b in prog.bodies.items() if b.get('impl') and b['impl']['self_ty'] == LI and 'str::FromStr' in b['impl']['trait'] and n.endswith('::from_str')]
    from . import c13
    core = entry_core(prog)
    for fn in fs:
        analysed.append(fn)
        bad, npaths = c13.wiring_paths(prog, fn, 0, core, [])
        rep.ob('serde:fromstr', 'SERDE-FROMSTR', fn, prog.bodies[fn]['span'], 'FromStr for LanguageIdentifier is from_bytes on the bytes of the string', not bad,
               detail='\n'.join(bad[:4]), how='%d paths' % npaths)
    rep.floor('FromStr impl', len(fs), 1)
    # ---- panic freedom of the serde bodies themselves
    for fn in analysed:
        e = pxm.PX(prog)
        segs = e.explore(fn)
        pan = [s for s in segs if s.kind == 'panic']
        unk = [n for n in e.unmodelled if models.totality(n) == 'unknown' and not re.search(r'(Serializer::serialize_str|Deserializer::deserialize_(str|string|any))$', n)]
        rep.ob('serde:nopanic:%s' % fn.split('::')[-1], 'SERDE-PANIC', fn, prog.bodies[fn]['span'], '%s has no panic site' % fn.split('::')[-1], not pan and not unk,
               detail='panic paths %d; unclassified externals %s' % (len(pan), unk[:3]))
    # the round trip through the serialised string needs the subtag validators to be exact and normalising (shared with C15)
    validators.run_all(prog, rep, roles_wanted={'Language', 'Script', 'Region', 'Variant'})
    # "serialises to exactly its canonical string" / "deserialising that output yields an equal value", in the configuration where serde is compiled in:
    # the Display automata of the identifier and its subtags, and the core parser table that re-reads what they print
    from . import emitrules, parserules
    emitrules.check_display(prog, rep, wanted={'LanguageIdentifier', 'Language', 'Script', 'Region', 'Variant'})
    parserules.check(prog, rep, 'core')
    rep.count('bodies analysed', len(analysed))
    rep.floor('serde bodies analysed', len(analysed), 4)
    # ---- "deserialising the serialised form gives an equal value": the serialised text is the canonical string, so the trip is the identity only on
    # values with a unique representation per string (typestate of every constructor/mutator, shared with C10/C12) whose text is canonical -
    # including the subtags that maximize/minimize copy out of the likely-subtags tables (data rules, shared with C05)
    from . import c10, tables
    nctor = c10.representation_obligations(rep, cfgs=('K0', 'K2'))
    rep.floor('constructors analysed', nctor, 5)
    tables.likely(common.program('K1'), rep)
    # the feature that selects this code must be reachable from the crate a user enables it on (manifest wiring)
    from .. import features
    features.check(rep)
    # values built by the compile-time macros belong to this property's domain as well: the macro witnesses of C16 (cached per tree)
    from . import c16
    c16.witness_family(rep, tier)
    rep.explanation = ('Structural necessary conditions read from the MIR of the serde impls (feature serde): serialize = serialize_str(self.to_string()); deserialize hands a visitor that '
                       'overrides only string visits to deserialize_str/string/any; visit_str = parse::<LanguageIdentifier>(input).map_err(custom) on the unchanged input; FromStr = from_bytes. '
                       'Together with C02/C04/C05 (parser, printer, round trip) this gives the stated behaviour; serde\'s own dispatch (JSON escapes, Value path, default visit_* errors) is trusted, not analysed.')
    rep.assumptions = ['serde: a Visitor that does not override visit_X returns Err(invalid_type) for input of kind X; deserialize_str/string/any call visit_str/visit_string/visit_borrowed_str with the decoded text',
                       'panic-freedom of to_string/parse is C01']
    return rep.finish()
