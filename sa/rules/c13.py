"""C13 — Locale is a drop-in superset of LanguageIdentifier (DESIGN §4.13)."""
import re
from .. import px as pxm, terms, ts, models
from . import common, entry

LI = 'unic_langid_impl'
LO = 'unic_locale_impl'


def wiring_paths(prog, fn, flag, core, disp, wrap=None, input_param=1):
    """problems (list of str) of one entry function as a parse entry: on every path exactly one run of the shared core parser with the constant
    allow_extension = flag on split(whole input).peekable(); for flag = 1 then the extension parser on the same iterator; the parsed value /
    the error kind returned unchanged (wrap = 'to_string': the value's to_string() is returned instead).  Loop-free wrappers between the
    entry and the core parser (from_bytes, parse_language_identifier, parse_locale ...) are explored inline, so it does not matter through
    which of them the entry goes."""
    opaque = set(core) | set(disp)
    e = pxm.PX(prog, opaque=opaque)
    segs = e.explore(fn)
    bad = []

    def unwrap_ok(r):
        """payload of a successful return, None if r is not Ok(..)"""
        if not (r[0] == 'adt' and r[2] == 'Ok' and r[3]):
            return None
        x = r[3][0]
        if wrap == 'to_string':
            if not (x[0] in ('call', 'pure') and x[1].endswith('ToString>::to_string') and len(x[2]) == 1):
                return None
            x = x[2][0]
            while x[0] in ('cref', 'ref'):
                x = e.deref_value(segs[0].state, x) if x[0] == 'ref' else x[1]
        return x

    for s in segs:
        if s.kind != 'return':
            bad.append('path ends in %s' % s.kind)
            continue
        cc = entry.calls_to(s, core)
        dc = entry.calls_to(s, disp)
        if len(cc) == 0 and short_input_rejected(e, s, input_param):
            continue        # a redundant guard: an input shorter than any language subtag is rejected with the error the parser would give
        if len(cc) != 1:
            bad.append('the core parser is called %d times on a path' % len(cc))
            continue
        # the token stream is exactly split(input).peekable(): no adaptor may drop, merge or reorder subtags
        itv = iterator_value(e, s, cc[0][2][0])
        if itv is None:
            bad.append('INCONCLUSIVE(the iterator handed to the parser is not traced to its construction)')
        else:
            shape_ok = itv[0] == 'pure' and itv[1].split('::')[-1] == 'peekable' and len(itv[2]) == 1 and itv[2][0][0] == 'pure' \
                and re.search(r'slice::<impl \[T\]>::split$', itv[2][0][1]) is not None
            if not shape_ok:
                bad.append('the token stream is not split(input).peekable(): %s' % e.short(itv, 160))
            else:
                ap = terms.access_path(itv[2][0][2][0])
                if not (ap and ap[0] == input_param and terms.strip_some(ap[1]) == ()):
                    bad.append('the split is not applied to the whole input')
        if cc[0][2][1] != ('int', flag):
            bad.append('core parser called with allow_extension = %s (expected the constant %s)' % (e.short(cc[0][2][1]), bool(flag)))
        core_tag = [v for k, v in s.state.facts.items() if k[0] == 'tag' and k[1][0] == 'call' and k[1][1] in core]
        r = s.ret
        if flag == 0:
            if dc:
                bad.append('LanguageIdentifier parsing consults the extension parser')
            if core_tag == ['pos']:
                x = unwrap_ok(r)
                if not (x is not None and x[0] == 'pos' and x[1][0] == 'call' and x[1][1] in core):
                    bad.append('success does not return the core parser\'s value%s unchanged: %s' % ("'s to_string()" if wrap else '', e.short(r, 160)))
            elif core_tag == ['neg']:
                if not (r[0] == 'adt' and r[2] == 'Err'):
                    bad.append('failure of the core parser is not returned as an error')
                elif not terms.find_terms(r, lambda t: t[0] == 'neg' and t[1][0] == 'call' and t[1][1] in core):
                    bad.append('the error kind of the core parser is not preserved: %s' % e.short(r, 160))
            elif not core_tag and wrap is None and passes_core_result(e, s, r, core):
                pass        # the core parser's Result returned as it is (or through map_err with an error-preserving function)
            else:
                bad.append('result of the core parser not tested')
        else:
            if core_tag == ['neg']:
                if dc:
                    bad.append('extensions parsed although the language identifier failed')
                if not (r[0] == 'adt' and r[2] == 'Err' and terms.find_terms(r, lambda t: t[0] == 'adt' and t[2] == 'InvalidLanguage')):
                    bad.append('failure of the language identifier is not reported as InvalidLanguage: %s' % e.short(r, 160))
            elif core_tag == ['pos']:
                if len(dc) == 0 and exhausted_shortcut(e, s, cc[0], unwrap_ok(r), core):
                    continue      # nothing follows the identifier: the default extensions are what the extension parser returns for an exhausted iterator (PAIR-EMPTY)
                if len(dc) != 1:
                    bad.append('the extension parser is called %d times after a successful language identifier' % len(dc))
                    continue
                if dc[0][2][0] != cc[0][2][0]:
                    bad.append('extensions are parsed from a different iterator than the language identifier')
                dtag = [v for k, v in s.state.facts.items() if k[0] == 'tag' and k[1][0] == 'call' and k[1][1] in disp]
                if dtag == ['pos']:
                    loc = unwrap_ok(r)
                    ok = loc is not None and loc[0] == 'adt' and loc[2] == 'Locale' and len(loc[3]) == 2 \
                        and loc[3][0][0] == 'pos' and loc[3][0][1][0] == 'call' and loc[3][0][1][1] in core \
                        and loc[3][1][0] == 'pos' and loc[3][1][1][0] == 'call' and loc[3][1][1][1] in disp
                    if not ok:
                        bad.append('the result is not %s{id: parsed identifier, extensions: parsed extensions}: %s' % ('the to_string() of Locale ' if wrap else 'the Locale ', e.short(r, 200)))
                elif dtag == ['neg']:
                    if not (r[0] == 'adt' and r[2] == 'Err' and terms.find_terms(r, lambda t: t[0] == 'neg' and t[1][0] == 'call' and t[1][1] in disp)):
                        bad.append('an extension error is not propagated: %s' % e.short(r, 160))
                else:
                    bad.append('result of the extension parser not tested')
            else:
                bad.append('result of the core parser not tested')
    if e.unmodelled:
        bad.append('INCONCLUSIVE(unmodelled callee %s)' % list(e.unmodelled)[0])
    if not segs:
        bad.append('no path explored')
    return sorted(set(bad)), len(segs)


def exhausted_shortcut(e, s, corecall, loc, core):
    """after the core parser the path looked at the same iterator, found it exhausted, and returns Locale { id: parsed identifier, extensions: default }"""
    try:
        it = models.iter_id(e, s.state, corecall[2][0])
    except Exception:
        return False
    seen_core = False
    absent = False
    for ev in s.state.events:
        if ev[0] == 'call' and ev[1] in core:
            seen_core = True
        elif seen_core and ev[0] in ('peek', 'next') and ev[1] == it:
            if s.state.facts.get(('tag', ('has', ev[1], ev[2]))) == 'neg':
                absent = True
            break
    if not absent or loc is None:
        return False
    return loc[0] == 'adt' and loc[2] == 'Locale' and len(loc[3]) == 2 and loc[3][0][0] == 'pos' and loc[3][0][1][0] == 'call' and loc[3][0][1][1] in core \
        and default_struct(loc[3][1]) and loc[3][1][0] != 'lv'


def short_input_rejected(e, s, input_param):
    """the path knows the whole input to be at most one byte long (so its first subtag cannot be a language subtag: table A.1, row L0/other)
    and returns the InvalidLanguage error that the core parser returns for such input"""
    r = s.ret
    if not (r is not None and r[0] == 'adt' and r[2] == 'Err' and terms.find_terms(r, lambda t: t[0] == 'adt' and t[2] == 'InvalidLanguage' and not t[3])):
        return False
    if [ev for ev in s.state.events if ev[0] in ('store', 'lstore')]:
        return False
    for subj, shp in s.state.shapes.items():
        ap = terms.access_path(('ref', subj)) if subj[0] != 'CONST' else None
        if ap and ap[0] == input_param and not terms.strip_some(ap[1]) and shp.lengths() <= {0, 1}:
            return True
    return False


def passes_core_result(e, s, r, core):
    """r is the core parser's call result itself, or map_err(that, f) with f keeping the error kind inside its result"""
    def is_core(x):
        return x[0] == 'call' and x[1] in core
    if is_core(r):
        return True
    if r[0] == 'map_err' and is_core(r[1]):
        probe = ('neg', r[1])
        try:
            outs = e.call_closure(s.state.copy(), r[2], [probe])
        except Exception:
            return False
        return bool(outs) and all(rv != ('PANIC',) and terms.find_terms(rv, lambda t: t == probe) for _, rv in outs)
    return False


def parsers(prog):
    return entry.core_parser(prog), entry.find_method(prog, LO, 'ExtensionsMap', 'try_from_iter')


def wiring(prog, rep):
    """both parsers reach the same core body, LanguageIdentifier with constant false, Locale with constant true, then the extension map
    on the same iterator; Locale maps a language-identifier failure to InvalidLanguage and propagates extension errors"""
    core, disp = parsers(prog)
    rep.floor('shared language-identifier core parser', len(core), 1)
    rep.floor('extension dispatcher', len(disp), 1)
    for label, fns, flag in (('LanguageIdentifier::from_bytes', entry.find_method(prog, LI, 'LanguageIdentifier', 'from_bytes'), 0),
                             ('parse_locale', entry.find_fn(prog, LO, 'parse_locale'), 1),
                             ('Locale::from_bytes', entry.find_method(prog, LO, 'Locale', 'from_bytes'), 1)):
        rep.floor('%s bodies' % label, len(fns), 1)
        for fn in fns:
            b = prog.bodies[fn]
            bad, npaths = wiring_paths(prog, fn, flag, core, disp)
            rep.ob('wiring:%s' % label, 'PAIR-CORE', fn, b['span'],
                   '%s runs the shared core parser with allow_extension = %s%s' % (label, bool(flag), ', then the extension parser on the same iterator' if flag else ' and returns its result'),
                   not bad, detail='\n'.join(bad[:5]), how='%d paths' % npaths)
    return core, disp


def iterator_value(e, s, arg):
    """value the iterator local had when it was created (the 'def' event of the local behind `&mut iter`, following moves)"""
    if arg[0] != 'ref' or arg[1][0] != 'L':
        return None
    want = arg[1]
    val = None
    for ev in s.state.events:
        if ev[0] == 'def' and ev[1] == want:
            val = ev[2]
            break
    if val is None:
        # initialised by a move from the call's destination temporary: the current value without later havoc
        try:
            val = e.read(s.state, want)
        except Exception:
            return None
    for _ in range(6):
        if val[0] == 'mut':
            val = val[1]
        else:
            break
    return val


def allow_extension_once(prog, rep, core):
    """the flag is read only after the subtag loop; its false value only adds the leftover-token rejection"""
    for fn in core:
        b = prog.bodies[fn]
        e = pxm.PX(prog)
        segs = e.explore(fn)
        bad = []
        flag = ('param', 2)
        byhead = {}
        for s in segs:
            if s.kind == 'loop' and flag in s.facts:
                bad.append('allow_extension is tested before or inside the subtag loop')
            if s.kind in ('return',):
                byhead.setdefault(s.src, []).append(s)
        nret = 0
        for h, lst in byhead.items():
            T = [s for s in lst if s.state.facts.get(flag) is True]
            F = [s for s in lst if s.state.facts.get(flag) is False]
            N = [s for s in lst if flag not in s.state.facts]
            # "false" world = paths F (flag read as false) and N (flag not read); "true" world = T and N.  The two worlds must return the
            # same value, except that the false world may reject a leftover subtag (and nothing else).
            for s in F:
                nret += 1
                r = s.ret
                pending = [v for k, v in s.state.facts.items() if k[0] == 'tag' and k[1][0] == 'has']
                if r[0] == 'adt' and r[2] == 'Err':
                    if not (pending and pending[-1] == 'pos'):
                        bad.append('with allow_extension = false an error is returned although no subtag is left over')
                    if not entry.is_const_err(r[3][0], 'InvalidSubtag'):
                        bad.append('the leftover-subtag error is %s, not InvalidSubtag' % e.short(r[3][0]))
                else:
                    if pending and pending[-1] == 'pos':
                        bad.append('with allow_extension = false a leftover subtag is accepted')
                    twins = [t for t in T + N if same_modulo(t, s, flag)]
                    if not twins:
                        bad.append('the value returned with allow_extension = false differs from the one returned with true: %s' % e.short(r, 160))
            for s in N:
                nret += 1
                r = s.ret
                pending = [v for k, v in s.state.facts.items() if k[0] == 'tag' and k[1][0] == 'has']
                if not (r[0] == 'adt' and r[2] == 'Err') and pending and pending[-1] == 'pos':
                    bad.append('a leftover subtag is accepted without consulting allow_extension')
            for t in T:
                nret += 1
                if t.ret[0] == 'adt' and t.ret[2] == 'Err':
                    bad.append('allow_extension = true adds an error: %s' % e.short(t.ret, 120))
                    continue
                # the counterpart may return its leftover error before later (flag-independent) decisions of this path are made
                mates = [f for f in F if same_facts(t, f, flag) or (f.ret[0] == 'adt' and f.ret[2] == 'Err' and sub_facts(f, t, flag))]
                if not mates:
                    bad.append('a value returned with allow_extension = true has no counterpart with false')
                for f in mates:
                    if not (f.ret[0] == 'adt' and f.ret[2] == 'Err') and entry.norm_uids(f.ret) != entry.norm_uids(t.ret):
                        bad.append('the value returned with allow_extension = false differs from the one returned with true: %s' % e.short(f.ret, 160))
        rep.ob('allow-extension-once', 'PAIR-FLAG', fn, b['span'],
               'allow_extension is consulted only after the subtag loop; false only adds "leftover subtag => InvalidSubtag", the parsed value is otherwise identical',
               not bad and nret > 0, detail='\n'.join(sorted(set(bad))[:5]), how='%d post-loop exits compared pairwise' % nret)


def facts_added(s):
    """fact keys decided within the segment (not inherited from before its start): approximated by the keys whose decision
    event lies in the segment — PX keeps facts in insertion order and loop cuts drop non-persistent ones"""
    return list(s.state.facts.keys())


def same_facts(a, b, flag):
    fa = {entry.norm_uids(k): v for k, v in a.state.facts.items() if k != flag and not (k[0] == 'tag' and k[1][0] == 'has')}
    fb = {entry.norm_uids(k): v for k, v in b.state.facts.items() if k != flag and not (k[0] == 'tag' and k[1][0] == 'has')}
    return fa == fb


def sub_facts(a, b, flag):
    """every decision of path a (other than the flag and iterator look-ahead) was made the same way on path b"""
    fa = {entry.norm_uids(k): v for k, v in a.state.facts.items() if k != flag and not (k[0] == 'tag' and k[1][0] == 'has')}
    fb = {entry.norm_uids(k): v for k, v in b.state.facts.items() if k != flag and not (k[0] == 'tag' and k[1][0] == 'has')}
    return all(k in fb and fb[k] == v for k, v in fa.items())


def same_modulo(a, b, flag):
    fa = {entry.norm_uids(k): v for k, v in a.state.facts.items() if k != flag and not (k[0] == 'tag' and k[1][0] == 'has')}
    fb = {entry.norm_uids(k): v for k, v in b.state.facts.items() if k != flag and not (k[0] == 'tag' and k[1][0] == 'has')}
    return fa == fb and entry.norm_uids(a.ret) == entry.norm_uids(b.ret)


def exhausted_dispatch(prog, rep, disp):
    """the extension dispatcher on an exhausted iterator returns Ok(default) and stores nothing"""
    for fn in disp:
        b = prog.bodies[fn]
        e = pxm.PX(prog)
        segs = e.explore(fn)
        bad = []
        found = 0
        first_heads = {s.dst: s for s in segs if s.src[0] == 'entry' and s.dst[0] == 'head'}
        for s in segs:
            if s.kind != 'return':
                continue
            pre = None
            if s.src[0] == 'entry':
                pre, evs = s, s.events
            elif s.src in first_heads:
                pre = first_heads[s.src]
                evs = pre.events + s.events
            else:
                continue
            nexts = [ev for ev in evs if ev[0] in ('next', 'peek')]
            subcalls = [ev for ev in evs if ev[0] == 'call' and ev[1] in prog.bodies]
            stores = [ev for ev in evs if ev[0] in ('store',) or (ev[0] == 'lstore')]
            tags = [v for k, v in s.state.facts.items() if k[0] == 'tag']
            # the path on which the very first token is absent: exactly one iterator access, its result tested absent, nothing else decided
            if len(nexts) == 1 and tags == ['neg'] and len(s.state.facts) == 1:
                found += 1
                r = s.ret
                v = r[3][0] if r[0] == 'adt' and r[2] == 'Ok' and r[3] else None
                if v is None:
                    bad.append('an empty remainder is rejected: %s' % e.short(r, 120))
                    continue
                if subcalls:
                    bad.append('a sub-parser runs although no subtag is left')
                # the value returned is the one built before the loop: all fields default
                built = [ev for ev in pre.events if ev[0] == 'call' and ev[1].endswith('::default')]
                # the value returned is the object built before the loop by Default::default (all fields default), unmodified
                dflt = [ev for ev in pre.events if ev[0] == 'leave' and ev[1].endswith('::default') and ev[2][0] == 'adt' and ev[2][2] == 'ExtensionsMap' and default_struct(ev[2])]
                direct = default_struct(v) and v[0] != 'lv' and not terms.find_terms(v, lambda t: t[0] == 'lv')
                if not (dflt or direct):
                    bad.append('an empty remainder does not give the default (empty) extensions: %s' % e.short(v, 160))
                if [ev for ev in pre.events if ev[0] in ('store', 'lstore')]:
                    bad.append('the freshly built result is modified before the first subtag is looked at')
                if [ev for ev in s.events if ev[0] in ('store', 'lstore')]:
                    bad.append('the result is modified although no subtag is left')
        if not found:
            bad.append('no path for an exhausted iterator found: INCONCLUSIVE')
        rep.ob('dispatch-exhausted', 'PAIR-EMPTY', fn, b['span'], 'with no subtag left the extension parser returns empty extensions (a LanguageIdentifier string parses to a Locale without extensions)',
               not bad, detail='\n'.join(sorted(set(bad))[:4]), how='%d path(s)' % found)


def first_iteration_head(e, segs, head):
    return any(s.src[0] == 'entry' and s.dst == head for s in segs)


def default_struct(v):
    if v[0] == 'lv':
        return True      # loop-carried result object: its fields are checked by the no-store rule of the dispatcher table (C03)
    if v[0] == 'adt' and v[2] == 'None' and not v[3]:
        return True           # a hand-written Default: `tlang: None`
    if v[0] == 'adt':
        return all((x[0] == 'pure' and x[1] == 'default') or default_struct(x) for x in v[3])
    if v[0] == 'pure' and not v[2] and re.search(r'(BTreeMap::<K, V>|BTreeSet::<T>|Vec::<T>|String|VecDeque::<T>)::new$', v[1]):
        return True           # the empty collection a hand-written Default builds
    return v[0] == 'pure' and v[1] in ('default', 'Vec::new')


def conversions(prog, rep):
    facts = prog.facts
    n = 0
    for im in facts.impls:
        if not im['trait_def'].endswith('convert::From') or not im['def'].startswith(LO + '::'):
            continue
        src_full = pxm.PX.from_arg(im['trait'])
        by_ref = src_full.lstrip().startswith('&')
        src = src_full.split('::')[-1]
        dst = im['self_ty'].split('::')[-1]
        if {src, dst} != {'Locale', 'LanguageIdentifier'}:
            continue
        for it in im['items']:
            if it not in prog.bodies:
                continue
            n += 1
            e = pxm.PX(prog)
            segs = e.explore(it)
            ok = len(segs) == 1 and segs[0].kind == 'return'
            detail = ''
            if ok:
                r = segs[0].ret
                detail = 'returns %s' % e.short(r, 200)
                if dst == 'Locale':
                    # From<&LanguageIdentifier>: the id is a clone of the referent (`*arg`), otherwise the argument itself
                    idv = r[3][0] if (r[0] == 'adt' and len(r[3]) == 2) else None
                    same = idv == ('param', 1) or (by_ref and idv is not None and terms.access_path(idv) == (1, ()) )
                    ok = r[0] == 'adt' and r[2] == 'Locale' and len(r[3]) == 2 and same and default_struct(r[3][1]) and r[3][1][0] != 'lv'
                    idx = [i for i, f in enumerate(terms.struct_fields(facts, 'unic_locale_impl::Locale') or []) if f['ty'].endswith('LanguageIdentifier')]
                    ok = ok and idx == [0]
                else:
                    ap = terms.access_path(r)
                    ok = ap is not None and ap[0] == 1 and len(ap[1]) == 1 and (terms.type_at(facts, 'unic_locale_impl::Locale', ap[1]) or '').endswith('LanguageIdentifier')
            rep.ob('conv:%s%s->%s' % ('&' if by_ref else '', src, dst), 'PAIR-CONV', it, im['span'],
                   ('From<LanguageIdentifier> for Locale = {id: argument, extensions: default}' if dst == 'Locale' else 'From<Locale> for LanguageIdentifier returns the id field (drops exactly the extensions)'),
                   ok, detail=detail)
    rep.floor('Locale <-> LanguageIdentifier conversions', n, 2)


def run(tier, replay=None):
    rep = common.new_report('C13', tier, 'other')
    prog = common.program('K0')
    rep.count('configuration', 'K0 (%d bodies)' % len(prog.bodies))
    core, disp = wiring(prog, rep)
    nsep = entry.check_separators(prog, rep, [('LanguageIdentifier::from_bytes', f, core) for f in entry.find_method(prog, LI, 'LanguageIdentifier', 'from_bytes')] +
                                  [('parse_locale', f, set(core) | set(disp)) for f in entry.find_fn(prog, LO, 'parse_locale')])
    rep.floor('split predicates analysed', nsep, 2)
    allow_extension_once(prog, rep, core)
    exhausted_dispatch(prog, rep, disp)
    conversions(prog, rep)
    from . import c11
    c11.asref(prog, rep)
    # "the same to_string()": a Locale without extensions prints its id and nothing else; "the id equals what LanguageIdentifier parses from the part
    # before the first singleton": the core parser stops at (and leaves) a singleton, the dispatcher starts there
    from . import emitrules, parserules
    emitrules.check_display(prog, rep, wanted={'Locale', 'ExtensionsMap', 'LanguageIdentifier', 'UnicodeExtensionList', 'TransformExtensionList', 'PrivateExtensionList'})
    for which in ('core', 'dispatch'):
        parserules.check(prog, rep, which)
    # "drop-in": a Locale built by any constructor or conversion carries an id in the one canonical representation a LanguageIdentifier built
    # from the same subtags has (sorted, duplicate-free, None when empty) - the typestate obligations of every constructor / mutator (shared with C10)
    from . import c10
    c10.representation_obligations(rep, cfgs=('K0',))
    # values built by the compile-time macros belong to this property's domain as well: the macro witnesses of C16 (cached per tree)
    from . import c16
    c16.witness_family(rep, tier)
    rep.explanation = ('Differential structure instead of differential execution: both entry points run the same core body on an iterator obtained with the same separator set, '
                       'LanguageIdentifier with the constant false and Locale with the constant true; the flag is read once, after the subtag loop, and false only adds the leftover rejection, '
                       'so for every input the identifier parsed is the same value; with nothing left the extension parser returns empty extensions; conversions wire the id field straight through. '
                       'Equality of outputs on concrete inputs is not executed.')
    rep.assumptions = ['slice::split yields the maximal runs between separator bytes (std)', 'Peekable::peek does not consume (std)']
    return rep.finish()
