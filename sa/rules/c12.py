"""C12 — equality, ordering and hashing agree with the canonical string (DESIGN §4.12)."""
import re
from .. import px as pxm, terms
from . import common, validators, c10, subtag_api

VALUE_TYPES = {
    'Language': 'unic_langid_impl', 'Script': 'unic_langid_impl', 'Region': 'unic_langid_impl', 'Variant': 'unic_langid_impl',
    'LanguageIdentifier': 'unic_langid_impl', 'Locale': 'unic_locale_impl', 'ExtensionsMap': 'unic_locale_impl',
    'UnicodeExtensionList': 'unic_locale_impl', 'TransformExtensionList': 'unic_locale_impl', 'PrivateExtensionList': 'unic_locale_impl',
}
CMP_TRAITS = ('cmp::PartialEq', 'cmp::Eq', 'hash::Hash', 'cmp::PartialOrd', 'cmp::Ord')
FIELD_ORDER = {
    'LanguageIdentifier': ['language', 'script', 'region', 'variants'],
    'Locale': ['id', 'extensions'],
}


def derived_impls(prog, rep):
    facts = prog.facts
    n = 0
    for ty, crate in sorted(VALUE_TYPES.items()):
        for tr in CMP_TRAITS:
            ims = [im for im in facts.impls if im['def'].startswith(crate + '::') and im['self_ty'].split('::')[-1] == ty and im['trait_def'].endswith(tr)
                   and self_instantiation(im, ty)]
            derived = [im for im in ims if im['derived']]
            manual = [im for im in ims if not im['derived']]
            n += len(derived)
            rep.ob('derive:%s:%s' % (ty, tr.split('::')[-1]), 'ITEM-DERIVED', ty, (ims[0]['span'] if ims else '-'),
                   '%s for %s is the derived, field-by-field implementation (no hand-written impl can disagree with the others)' % (tr.split('::')[-1], ty),
                   len(derived) == 1 and not manual,
                   detail=('no impl' if not ims else 'hand-written impl at %s' % [m['span'] for m in manual]) if not (len(derived) == 1 and not manual) else '')
    rep.floor('derived comparison/hash impls', n, 50)


def self_instantiation(im, ty):
    """PartialEq<Self> / PartialOrd<Self> (not PartialEq<&str> etc.)"""
    t = im['trait']
    m = re.search(r'(PartialEq|PartialOrd)<(.*)>>$', t)
    if m:
        return m.group(2).split('::')[-1] == ty
    return True


def field_order(prog, rep):
    for ty, want in FIELD_ORDER.items():
        fs = terms.struct_fields(prog.facts, VALUE_TYPES[ty] + '::' + ty)
        got = [f['name'] for f in fs] if fs else None
        full, adt = terms.find_adt(prog.facts, VALUE_TYPES[ty] + '::' + ty)
        rep.ob('fields:%s' % ty, 'ITEM-ORDER', ty, (adt or {}).get('span', '-'),
               '%s declares its fields in the order %s (derived Ord compares in declaration order; None sorts first)' % (ty, ', '.join(want)), got == want,
               detail='declared order: %s' % got)


def unprinted_fields_unwritten(prog, rep):
    """a field of a printed type that Display does not emit must never be written (else equal strings, unequal values):
    today ExtensionsMap::other"""
    facts = prog.facts
    FACTS[0] = facts
    fs = terms.struct_fields(facts, 'unic_locale_impl::extensions::ExtensionsMap') or []
    n = 0
    for i, f in enumerate(fs):
        ty = terms.norm_ty(f['ty'])
        if ty.split('::')[-1].split('<')[0] in ('UnicodeExtensionList', 'TransformExtensionList', 'PrivateExtensionList'):
            continue
        n += 1
        writers = []
        for fn, b in prog.bodies.items():
            if not fn.startswith('unic_locale_impl::') or (b.get('impl') and b['impl'].get('derived')):
                continue
            for bi, blk in enumerate(b['mir']['blocks']):
                if blk['cleanup']:
                    continue
                for s in blk['stmts']:
                    if s['k'] == 'assign' and mentions_field(b, s['lhs'], 'ExtensionsMap', i):
                        writers.append((fn, s.get('sp')))
                    if s['k'] == 'assign' and s['rv']['k'] in ('ref', 'rawptr') and s['rv'].get('mut') and mentions_field(b, s['rv']['p'], 'ExtensionsMap', i):
                        writers.append((fn, s.get('sp')))
        rep.ob('unprinted:%s' % f['name'], 'ITEM-UNPRINTED', 'ExtensionsMap.%s' % f['name'], '-',
               'ExtensionsMap.%s is not printed by Display, so no library code may write it (it stays empty under the property\'s quantifier)' % f['name'],
               not writers, detail='written in %s' % writers[:3])
    return n


def mentions_field(body, place, owner, idx, facts=None):
    """does the place project field `idx` out of a value of type `owner`?  Types are walked through the ADT facts."""
    locs = body['mir']['locals']
    ty = locs[place['l']] if place['l'] < len(locs) else ''
    cur = terms.norm_ty(ty)
    for e in place['p']:
        if e == '*':
            cur = terms.norm_ty(cur)
            continue
        if isinstance(e, dict) and 'f' in e:
            if cur.split('::')[-1].split('<')[0] == owner and e['f'] == idx:
                return True
            nxt = terms.type_at(FACTS[0], cur, (e['f'],)) if FACTS[0] is not None else None
            cur = nxt or ''
        elif isinstance(e, dict) and 'dc' in e:
            # downcast to an enum variant (Option::Some ..): payload type of Option/Result
            nxt = terms.type_at(FACTS[0], cur, ('some',)) if FACTS[0] is not None else None
            if nxt:
                # the following field projection .0 selects the payload: emulate by wrapping
                cur = '(payload)' + nxt
            else:
                cur = ''
        else:
            cur = ''
        if cur.startswith('(payload)'):
            continue
    return False


FACTS = [None]


def str_equality(prog, rep):
    """LanguageIdentifier == &str compares the whole canonical string"""
    n = 0
    for fn, b in prog.bodies.items():
        im = b.get('impl')
        if not im or im['self_ty'] != 'LanguageIdentifier' or 'cmp::PartialEq<' not in im['trait'] or 'str>' not in im['trait'] or not fn.endswith('::eq'):
            continue
        n += 1
        e = pxm.PX(prog)
        segs = e.explore(fn)
        bad = []
        for s in segs:
            if s.kind != 'return':
                bad.append('path ends in %s' % s.kind)
                continue
            r = s.ret
            if not (r[0] == 'pure' and r[1] == 'eq'):
                bad.append('result is not one string equality: %s' % e.short(r, 160))
                continue
            a, bb = r[2]
            mine = [x for x in (a, bb) if not terms.involves_param(x, 2)]
            theirs = [x for x in (a, bb) if terms.involves_param(x, 2)]
            if len(mine) != 1 or len(theirs) != 1:
                bad.append('operands are not (own text, argument): %s' % e.short(r, 160))
                continue
            tsc = terms.find_terms(mine[0], lambda t: t[0] in ('call', 'pure') and t[1].endswith('ToString>::to_string'))
            calls = [ev for ev in s.state.events if ev[0] == 'call' and ev[1].endswith('ToString>::to_string') and ev[2] and ev[2][0] == ('param', 1)]
            if not calls:
                bad.append('own text is not self.to_string()')
            if terms.access_path(theirs[0]) != (2, ()):
                bad.append('the argument is not compared as a whole: %s' % e.short(theirs[0]))
            bad_calls = [ev[1] for ev in s.state.events if ev[0] == 'call' and re.search(r'(starts_with|ends_with|contains|eq_ignore_ascii_case|to_lowercase|to_uppercase|trim|strip_prefix|find)$', ev[1])]
            if bad_calls:
                bad.append('comparison uses %s' % bad_calls[0])
        if e.unmodelled:
            bad.append('INCONCLUSIVE(unmodelled callee %s)' % list(e.unmodelled)[0])
        rep.ob('streq:LanguageIdentifier', 'ITEM-STREQ', fn, b['span'], 'LanguageIdentifier == &str is true iff the string equals self.to_string()', not bad and segs,
               detail='\n'.join(sorted(set(bad))[:4]), how='%d path(s)' % len(segs))
    rep.floor('PartialEq<&str> for LanguageIdentifier', n, 1)


def run(tier, replay=None):
    rep = common.new_report('C12', tier, 'other')
    prog = common.program('K0')
    rep.count('configuration', 'K0 (%d bodies)' % len(prog.bodies))
    derived_impls(prog, rep)
    field_order(prog, rep)
    n = unprinted_fields_unwritten(prog, rep)
    rep.count('fields of printed types that Display does not emit', n)
    str_equality(prog, rep)
    # unique representation: typestate invariants at every exit of every mutator / constructor, single empty language
    nctor = c10.representation_obligations(rep, cfgs=('K0', 'K1'))
    rep.floor('constructors analysed', nctor, 5)
    results, found = validators.run_all(prog, rep, roles_wanted={'Language', 'Script', 'Region', 'Variant'})
    subtag_api.run(prog, rep)
    # equal values print equally and different canonical representations print differently: the printers are their grammars,
    # each optional part is printed iff present, nothing is printed only when everything is empty (shared with C04); the
    # re-readability of every printed sentence (injectivity) is the spec round trip of C05
    from . import emitrules, c05
    emitrules.check_display(prog, rep)
    c05.spec_roundtrip(rep)
    # values built by the compile-time macros belong to this property's domain as well: the macro witnesses of C16 (cached per tree)
    from . import c16
    c16.witness_family(rep, tier)
    # values produced by maximize / minimize are built from table integers through the unchecked constructors: the representation behind a
    # string is unique only if every stored integer decodes to canonical text and no stored language is the text "und" (shared with C18)
    from . import tables
    tables.likely(common.program('K1'), rep)
    rep.explanation = ('x == y iff to_string equal, decided through its structural preconditions: (1) every comparison/hash impl of the ten value types is the derived, field-wise one, so Eq, Ord and Hash '
                       'cannot disagree with each other; (2) fields are declared in the order language, script, region, variants (and id, extensions), which is the order the property states; '
                       '(3) the representation behind one canonical string is unique: ordered collections are sorted/duplicate-free, "no variants" is always None, the empty language is always None '
                       '(any case of "und"), case is normalised at construction, fields that are not printed are never written; (4) == &str compares the whole canonical string. '
                       'The iff on concrete pairs is not executed.')
    rep.assumptions = ['derived PartialEq/Eq/Hash/PartialOrd/Ord are field-wise in declaration order; Option orders None first (std)',
                       'values built with the unchecked constructors are outside the quantifier']
    return rep.finish()
