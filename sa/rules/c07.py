"""C07 — maximize only adds subtags, fills all three, and is idempotent (DESIGN §4.7)."""
from .. import px as pxm, terms
from . import common, tables, likely


def locale_wrappers(prog, rep, targets):
    """every body of unic_locale_impl that reaches LanguageIdentifier::maximize/minimize may write only below Locale.id"""
    from .. import callgraph
    cg = callgraph.CallGraph(prog)
    n = 0
    for f, b in prog.bodies.items():
        if not f.startswith('unic_locale_impl::') or b['kind'] not in ('Fn', 'AssocFn'):
            continue
        if not (cg.reachable([f]) & set(targets)):
            continue
        n += 1
        e = pxm.PX(prog, opaque=set(targets))
        bad = []
        for s in e.explore(f):
            for ev in s.events:
                if ev[0] == 'store':
                    ap = terms.access_path(('ref', ev[1]))
                    t = terms.type_at(prog.facts, 'unic_locale_impl::Locale', ap[1][:1]) if ap and ap[1] else None
                    if not (t and t.endswith('LanguageIdentifier')):
                        bad.append('writes %s' % e.fmt(ev[1]))
        rep.ob('locale-wrapper:%s' % f, 'CASC-LOCALE', f, b['span'], 'a Locale-level wrapper of maximize/minimize leaves the extensions untouched', not bad, detail='\n'.join(bad[:4]))
    rep.count('Locale-level wrappers of maximize/minimize', n)


def run(tier, replay=None):
    rep = common.new_report('C07', tier, 'proof')
    prog = common.program('K1')
    rep.count('configuration', 'K1 (likelysubtags): %d bodies' % len(prog.bodies))
    ct, exp, order, nrows = tables.likely(prog, rep)
    res = likely.check_maximize(prog, rep, ct, order)
    mx = likely.find_likely_fn(prog, 'maximize')
    m = likely.check_method(prog, rep, 'maximize', mx)
    locale_wrappers(prog, rep, m)
    # the lookups key on "the language is und" (Language(None)) and on the integer forms of the stored text: every spelling of und must be stored as None and every
    # subtag in its one canonical form (subtag validators, shared with C15); both method wrappers write the result back (the property speaks of maximizing the minimized form)
    from . import validators, subtag_api
    validators.run_all(common.program('K1'), rep, roles_wanted={'Language', 'Script', 'Region', 'Variant'})
    subtag_api.language_empty(common.program('K1'), rep, validators.load_roles())
    likely.check_method(prog, rep, 'minimize', likely.find_likely_fn(prog, 'minimize'))
    rep.floor('LanguageIdentifier::maximize bodies', len(m), 1)
    rep.floor('likely-subtags rows (all three components present)', nrows, 8219)
    rep.count('maximize decision paths / distinct lookups', '%d / %d' % (res['paths'], res['lookups']))
    # values built by the compile-time macros belong to this property's domain as well: the macro witnesses of C16 (cached per tree)
    from . import c16
    c16.witness_family(rep, tier)
    rep.explanation = ('(1) on every hit path each result component is the caller\'s own subtag or the found row\'s component, and a given subtag outside the key is never '
                       'replaced (CASC-RESULT) while key components agree with the row by data (TAB-KEEPS); (2) every row value carries all three components (TAB-COMPLETE), so a '
                       'changed identifier is full; (3) all-present input returns "unchanged" before any lookup (CASC-ORDER pattern 1,1,1), so a second application changes nothing; '
                       '(4) the method writes only language/script/region, only on success, and returns true exactly then (CASC-METHOD); (5) no Locale-level code writes extensions.')
    rep.assumptions = ['std Option combinators behave as documented']
    return rep.finish()
