"""Mutator analysis shared by C10 (and used by C04/C12 for the representation invariants): inventory of `&mut self`
methods and constructors of the value types, typestate of the invariant fields at every exit, error atomicity, the shape of
every value inserted into a validated collection, and the abstract effect (delta) of each mutator."""
import re
from .. import px as pxm, terms, ts, models, shape as sh
from ..shape import Shape
from . import validators

TYPES = {
    # type suffix -> crate
    'LanguageIdentifier': 'unic_langid_impl',
    'UnicodeExtensionList': 'unic_locale_impl',
    'TransformExtensionList': 'unic_locale_impl',
    'PrivateExtensionList': 'unic_locale_impl',
}


def invariant_fields(facts):
    """(type name) -> list of (field index, field name, required typestate, must be non-empty when Some, role of elements)"""
    out = {}
    for tname, crate in TYPES.items():
        full, adt = terms.find_adt(facts, crate + '::' + tname) if tname == 'LanguageIdentifier' else terms.find_adt(facts, tname)
        if adt is None:
            continue
        inv = []
        for i, f in enumerate(adt['variants'][0]['fields']):
            ty = terms.norm_ty(f['ty'])
            if tname == 'LanguageIdentifier' and ty.startswith('std::option::Option<std::boxed::Box<['):
                inv.append((i, f['name'], ts.SD, True, 'Variant'))
            elif tname == 'UnicodeExtensionList' and ty.startswith('std::vec::Vec<'):
                inv.append((i, f['name'], ts.SD, False, 'uattr'))
            elif tname == 'PrivateExtensionList' and ty.startswith('std::vec::Vec<'):
                inv.append((i, f['name'], ts.S, False, 'privatetag'))
        out[tname] = (full, inv)
    return out


def map_fields(facts):
    """BTreeMap fields: type -> list of (index, name, key role, value role)"""
    out = {}
    for tname, (kr, vr) in (('UnicodeExtensionList', ('ukey', 'utype')), ('TransformExtensionList', ('tkey', 'tvalue'))):
        full, adt = terms.find_adt(facts, tname)
        if adt is None:
            continue
        out[tname] = [(i, f['name'], kr, vr) for i, f in enumerate(adt['variants'][0]['fields']) if 'BTreeMap<' in f['ty']]
    return out


def self_type(b):
    s = b.get('sig')
    if not s or not s['inputs']:
        return None, False
    t = s['inputs'][0]
    m = re.match(r'^&mut (.*)$', t)
    ty = terms.norm_ty(m.group(1) if m else t)
    return ty.split('::')[-1], bool(m)


def mutator_methods(prog):
    """inherent `&mut self` methods of the value types: the public mutators of the model"""
    out = []
    for n, b in sorted(prog.bodies.items()):
        if b['kind'] != 'AssocFn' or not b.get('impl') or b['impl']['trait'] or b['impl'].get('derived'):
            continue
        ty, is_mut = self_type(b)
        if is_mut and ty in TYPES and n.startswith(TYPES[ty] + '::'):
            out.append((n, ty))
    return out


def other_writers(prog):
    """every other non-derived function of the two crates that receives `&mut` access to one of the value types: trait-impl methods
    (Extend, DerefMut, AddAssign ...), free functions, methods of other types.  -> [(fn, type, parameter index)]"""
    inherent = set(n for n, _ in mutator_methods(prog))
    out = []
    for n, b in sorted(prog.bodies.items()):
        s = b.get('sig')
        if not s or b['kind'] not in ('Fn', 'AssocFn') or n in inherent or (b.get('impl') and b['impl'].get('derived')):
            continue
        if not n.startswith(('unic_langid_impl::', 'unic_locale_impl::')):
            continue
        for i, t in enumerate(s['inputs']):
            m = re.match(r'^&mut (.*)$', t)
            if m:
                ty = terms.norm_ty(m.group(1)).split('::')[-1]
                if ty in TYPES:
                    out.append((n, ty, i + 1))
    return out


def mutable_escapes(prog, rep):
    """who-may-write: no function hands out mutable access (`&mut`, IterMut, Drain, Entry ...) to the inside of a value type with an order /
    uniqueness invariant - the invariants could then be broken from outside the module"""
    allinv = invariant_fields(prog.facts)
    owners = set(t for t, (full, inv) in allinv.items() if inv)
    n = 0
    for fn, b in sorted(prog.bodies.items()):
        s = b.get('sig')
        if not s or b['kind'] not in ('Fn', 'AssocFn') or (b.get('impl') and b['impl'].get('derived')) or not fn.startswith(('unic_langid_impl::', 'unic_locale_impl::')):
            continue
        o = s['output']
        if not re.search(r'&mut |&\'[a-z_0-9]+ mut |IterMut|Drain<|Entry<|ValuesMut|DerefMut', o):
            continue
        ins = [terms.norm_ty(re.sub(r'^&mut ', '', t)).split('::')[-1] for t in s['inputs'] if t.startswith('&mut')]
        hit = [t for t in ins if t in owners or t in ('Locale', 'ExtensionsMap')]
        if not hit:
            continue
        n += 1
        # mutable access to a field without invariant (tlang, the maps) is fine: only the invariant-carrying element types matter
        risky = any(x in o for x in ('Vec<', 'TinyAsciiStr', 'Variant', '[', 'Box<')) or any(t in o for t in owners)
        rep.ob('escape:%s' % fn, 'TS-ESCAPE', fn, b['span'], '%s does not hand out mutable access to an ordered collection' % fn.split('::', 1)[-1], not risky,
               detail='returns %s from &mut %s: callers could reorder / duplicate elements behind the invariant' % (o, hit[0]))
    return n


def constructors(prog):
    """non-derived functions returning one of the value types by value (possibly inside Result/Option)"""
    out = []
    for n, b in sorted(prog.bodies.items()):
        s = b.get('sig')
        if not s or b['kind'] not in ('Fn', 'AssocFn') or (b.get('impl') and b['impl'].get('derived')):
            continue
        if not (n.startswith('unic_langid_impl::') or n.startswith('unic_locale_impl::')):
            continue
        o = s['output']
        for ty in TYPES:
            if re.search(r'(^|[<( ,:])%s($|[>), ])' % ty, o) and not o.startswith('&') and 'impl ' not in o and 'Option<&' not in o:
                out.append((n, ty))
                break
    return out


def find_struct_values(v, adt_name, out, depth=0):
    """all ('adt', adt_name, ..) constructions inside a returned term"""
    if not isinstance(v, tuple) or depth > 12 or not v:
        return
    if v[0] == 'adt' and v[1] == adt_name:
        out.append(v)
        return
    if v[0] == 'adt':
        for x in v[3]:
            find_struct_values(x, adt_name, out, depth + 1)
    elif v[0] == 'tuple':
        for x in v[1]:
            find_struct_values(x, adt_name, out, depth + 1)


class PathSummary:
    def __init__(self, seg, outcome):
        self.seg, self.outcome = seg, outcome


def outcome_of(ret):
    if ret is None:
        return '?'
    if ret[0] == 'adt' and ret[2] == 'Err':
        return 'err'
    if ret[0] == 'adt' and ret[2] == 'Ok':
        p = ret[3][0] if ret[3] else None
        if p == ('int', 1):
            return 'ok-true'
        if p == ('int', 0):
            return 'ok-false'
        return 'ok'
    if ret == ('int', 1):
        return 'true'
    if ret == ('int', 0):
        return 'false'
    return 'unit'


def dirty_nodes(e, segs):
    """nodes of the segment graph reachable through at least one segment that mutates *self"""
    dirty = set()
    changed = True
    mut = {id(s): bool(ts.self_mutations(e, s.state, s.events)) for s in segs}
    while changed:
        changed = False
        for s in segs:
            if (mut[id(s)] or s.src in dirty) and s.dst not in dirty and s.dst[0] == 'head':
                dirty.add(s.dst)
                changed = True
    return dirty, mut


def check_atomicity(prog, e, segs, fn, rep, keybase):
    b = prog.bodies[fn]
    bad = []
    dirty, mut = dirty_nodes(e, segs)
    nerr = 0
    for s in segs:
        if s.kind == 'return' and outcome_of(s.ret) == 'err':
            nerr += 1
            if mut[id(s)] or s.src in dirty:
                evs = ts.self_mutations(e, s.state, s.state.events)
                w = evs[0] if evs else None
                bad.append('an Err return is preceded by a write to self: %s at %s' % ((w[1].split('::')[-1] if w and w[0] == 'call' else 'assignment'), (w[3] if w else '?')))
    rep.ob(keybase + ':atomic', 'TS-ATOMIC', fn, b['span'], '%s: a call that returns an error leaves the value unchanged (no write to self precedes an Err return)' % validators.short_fn(fn),
           not bad, detail='\n'.join(sorted(set(bad))[:4]), how='%d error paths' % nerr)
    return nerr


def check_invariants_method(prog, e, segs, fn, ty, inv, rep, keybase, recv=1):
    """typestate of every invariant field at every exit of a &mut self method (assuming it on entry); recv: index of the `&mut` parameter"""
    b = prog.bodies[fn]
    bad = []
    n = 0
    has_loops = any(s.kind == 'loop' for s in segs)
    for (fi, fname, req, nonempty, role) in inv:
        place = ('F', ('P', ('param', recv)), fi)
        for s in segs:
            if s.kind != 'return':
                continue
            n += 1
            # in a method with loops the state at a loop head is unknown unless this segment starts at the entry
            init = req if (s.src[0] == 'entry' or not has_loops) else (req if not touches(e, segs, place) else ts.U)
            r = ts.fold_events(e, s.state, s.state.events if not has_loops else s.events, place, init, init_empty=True)
            if ts.worse(r.state, req):
                bad.append('%s is left %s (required: %s): %s' % (fname, ts.NAMES[r.state], ts.NAMES[req], ' -> '.join(r.why)))
            if req == ts.S and any(str(w).split('(')[0].startswith('dedup') for w in r.why):
                bad.append('%s is a multiset (repeated elements are kept) but is de-duplicated: %s' % (fname, ' -> '.join(r.why)))
            if nonempty:
                # Option<Box<[T]>>: Some(list) must be non-empty: check the stored value
                for ev in s.state.events:
                    if ev[0] == 'store' and ev[1] == place and ev[2][0] == 'adt' and ev[2][2] == 'Some':
                        rv = ts.of_value(e, s.state, ev[2], s.state.facts)
                        sm = ts.call_summary(e, ev[2])
                        if (sm.some_empty if sm is not None else rv.maybe_empty):
                            bad.append('%s may be stored as Some(empty list) (single representation of "no %s" is None)' % (fname, fname))
                    elif ev[0] == 'store' and ev[1] == place and ts.call_summary(e, ev[2]) is not None and ts.call_summary(e, ev[2]).some_empty:
                        bad.append('%s may be stored as Some(empty list) by %s (single representation of "no %s" is None)' % (fname, ev[2][1].split('::')[-1], fname))
            # searches on the field require sortedness: holds on entry by assumption; check no unordered state before a search
            upto = []
            for ev in (s.state.events if not has_loops else s.events):
                if ev[0] == 'call' and re.search(r'::binary_search(_by|_by_key)?$', ev[1]) and ev[2] and models.vec_place(e, s.state, ev[2][0]) == place:
                    rr = ts.fold_events(e, s.state, upto, place, init)
                    if ts.worse(rr.state, ts.S):
                        bad.append('%s is searched with binary_search while %s' % (fname, ts.NAMES[rr.state]))
                upto.append(ev)
    rep.ob(keybase + ':invariant', 'TS-INVARIANT', fn, b['span'], '%s re-establishes the order/uniqueness invariants of %s' % (validators.short_fn(fn), ty), not bad,
           detail='\n'.join(sorted(set(bad))[:4]), how='%d field x exit pairs' % n)


def touches(e, segs, place):
    for s in segs:
        for ev in s.events:
            if ev[0] == 'call' and models.MUTATOR_RE.search(ev[1]) and ev[2] and models.vec_place(e, s.state, ev[2][0]) == place:
                return True
            if ev[0] == 'store' and (e.is_prefix(ev[1], place) or e.is_prefix(place, ev[1])):
                return True
    return False


def check_constructor(prog, fn, ty, allinv, rep, exempt):
    """typestate of the invariant fields of every value of `ty` a constructor returns"""
    full, inv = allinv.get(ty, (None, []))
    if not inv:
        return 0
    b = prog.bodies[fn]
    key = 'ctor:%s' % validators.fn_key(fn)
    if fn in exempt or (b['sig'] and b['sig']['unsafe']):
        return 0
    e = pxm.PX(prog)
    try:
        segs = e.explore(fn)
    except pxm.Limit as ex:
        rep.ob(key, 'TS-CTOR', fn, b['span'], 'constructor explored', False, 'INCONCLUSIVE(%s)' % ex)
        return 0
    bad = []
    n = 0
    for s in segs:
        if s.kind != 'return':
            continue
        vals = []
        find_struct_values(s.ret, full, vals)
        rets_ty = True
        if not vals:
            # the value is returned through a callee / a local we cannot see into: acceptable only when it comes from another
            # analysed constructor or a parameter of the same type (moved through)
            if s.ret is not None and outcome_of(s.ret) != 'err' and not passes_through(e, s.ret, prog, ty):
                bad.append('returned value not understood: INCONCLUSIVE(%s)' % e.short(s.ret, 160))
            continue
        for v in vals:
            for (fi, fname, req, nonempty, role) in inv:
                n += 1
                fv = v[3][fi] if fi < len(v[3]) else None
                if fv is None:
                    continue
                if fv[0] == 'adt' and fv[2] == 'None':
                    continue
                if terms.access_path(fv) is not None and not ts.is_search(fv):
                    continue      # moved from a parameter of the same field type (invariant assumed on entry)
                r = ts.of_value(e, s.state, fv, s.state.facts)
                if ts.worse(r.state, req):
                    bad.append('%s is built %s (required: %s): %s' % (fname, ts.NAMES[r.state], ts.NAMES[req], ' -> '.join(r.why)))
                if req == ts.S and any(str(w).split('(')[0].startswith('dedup') for w in r.why):
                    bad.append('%s is a multiset (repeated elements are kept) but is de-duplicated: %s' % (fname, ' -> '.join(r.why)))
                sm = ts.call_summary(e, fv)
                if nonempty and sm is not None:
                    if sm.some_empty:
                        bad.append('%s may be built as Some(empty list)' % fname)
                elif nonempty and fv[0] == 'adt' and fv[2] == 'Some' and r.maybe_empty:
                    bad.append('%s may be built as Some(empty list)' % fname)
    rep.ob(key, 'TS-CTOR', fn, b['span'], '%s returns a %s whose ordered collections are sorted%s' % (validators.short_fn(fn), ty, ' and duplicate-free' if any(i[2] == ts.SD for i in inv) else ''),
           not bad, detail='\n'.join(sorted(set(bad))[:4]), how='%d field values at %d exits' % (n, len([s for s in segs if s.kind == 'return'])))
    return 1


def passes_through(e, ret, prog, ty):
    """value produced by a call to another repository function returning the same type, or moved from a parameter"""
    found = []

    def visit(t):
        if t[0] in ('call', 'ret') and isinstance(t[1], str) and t[1] in prog.bodies and ty in (prog.bodies[t[1]]['sig'] or {}).get('output', ''):
            found.append(t)
        if t[0] == 'pure' and t[1] == 'default':
            found.append(t)
        if t[0] == 'call' and isinstance(t[1], str) and re.search(r'Deserializer::deserialize_\w+$', t[1]) and len(t[2]) == 2 and t[2][1][0] == 'adt':
            # serde: an Ok value of deserialize_*(visitor) is whatever one of the visitor's visit_* methods returned; those methods are
            # repository functions returning `ty` and are constructors checked in their own right
            vt = t[2][1][1].split('::')[-1]
            for im in prog.facts.impls:
                if im['trait_def'].endswith('de::Visitor') and im['self_ty'].split('::')[-1] == vt:
                    ms = [i for i in im['items'] if i in prog.bodies and i.split('::')[-1].startswith('visit_')]
                    if ms and all(ty in (prog.bodies[i]['sig'] or {}).get('output', '') for i in ms):
                        found.append(t)
        if t[0] == 'pure' and t[1].split('::')[-1] in ('unwrap_or_default', 'default', 'clone'):
            found.append(t)
    terms.walk(ret, visit)
    if found:
        return True
    ap = terms.access_path(ret[3][0] if ret[0] == 'adt' and ret[3] else ret)
    return ap is not None


# ------------------------------------------------------------------------------------------------------------------
class _Shapes:
    def __init__(self, shapes):
        self.shapes = shapes


def validated_shape(e, st, v, role, roles, shapes=None):
    """the inserted value must be the validated argument: ('tiny', subject, transform) whose subject's shape on this path
    lies inside the role's production; -> list of problems"""
    bad = []
    spec = roles[role]
    x = v
    for _ in range(6):
        if x[0] == 'cref':
            x = x[1]
        elif x[0] == 'ref':
            x = e.deref_value(st, x)
        else:
            break
    if x[0] != 'tiny':
        return ['inserted value is not a validated subtag: %s' % e.short(v, 120)]
    subj, xf = x[1], x[2]
    S = (shapes if shapes is not None else st.shapes).get(subj)
    if S is None:
        return ['inserted %s was not validated on this path' % role]
    extra = S.minus(spec.accept)
    if not extra.is_empty():
        bad.append('a %s outside the production can be stored, e.g. %r' % (role, extra.example()))
    ok, why = sh.transforms_agree(S.intersect(spec.accept), xf or ('id',), (spec.transform,))
    if not ok:
        bad.append('%s stored with a normalisation other than %s: %s' % (role, spec.transform, why))
    if spec.special:
        both = S.intersect(spec.special_shape())
        if not both.is_empty():
            bad.append('%r can be stored as a %s (it must be dropped)' % (spec.special['literal'], role))
    return bad


def rejected_shape(e, seg, role, roles, argparam=2):
    """on an Err path that validated parameter `argparam`: the rejected set must be disjoint from the production"""
    spec = roles[role]
    for subj, S in seg.state.shapes.items():
        ap = terms.access_path(subj)
        if ap and ap[0] == argparam:
            lost = S.intersect(spec.accept)
            if not lost.is_empty():
                return ['a well-formed %s is rejected, e.g. %r' % (role, lost.example())]
    return []


def check_values_closure(prog, clos, role, roles):
    """closure handed to filter_map(...).collect::<Result<Vec<_>,_>>(): per element Some(Ok(validated)) | None (the dropped
    literal) | Some(Err)"""
    if clos[0] != 'closure' or clos[1] not in prog.bodies:
        return ['values are not produced by a validating closure: %s' % (clos,)]
    e = pxm.PX(prog)
    segs = e.explore(clos[1])
    spec = roles[role]
    bad = []
    acc, rej, drop = [], [], []
    subj = None
    for s in segs:
        if s.kind != 'return':
            bad.append('path ends in %s' % s.kind)
            continue
        r = s.ret
        subs = [k for k in s.state.shapes if k[0] != 'B1']
        if len(subs) != 1:
            bad.append('INCONCLUSIVE(validator closure has %d subjects)' % len(subs))
            continue
        subj = subs[0]
        S = s.state.shapes[subj]
        if r[0] == 'adt' and r[2] == 'None':
            drop.append(S)
            ex = S.minus(spec.special_shape()) if spec.special else S
            if not ex.is_empty():
                bad.append('a value other than the literal %r is silently dropped, e.g. %r' % (spec.special['literal'] if spec.special else None, ex.example()))
        elif r[0] == 'adt' and r[2] == 'Some' and r[3][0][0] == 'adt' and r[3][0][2] == 'Ok':
            acc.append(S)
            bad.extend(validated_shape(e, s.state, r[3][0][3][0], role, roles))
        elif r[0] == 'adt' and r[2] == 'Some' and r[3][0][0] == 'adt' and r[3][0][2] == 'Err':
            rej.append(S)
            lost = S.intersect(spec.accept)
            if not lost.is_empty():
                bad.append('a well-formed %s is rejected, e.g. %r' % (role, lost.example()))
        else:
            bad.append('closure result not understood: INCONCLUSIVE(%s)' % e.short(r, 120))
    if e.unmodelled:
        bad.append('INCONCLUSIVE(unmodelled %s)' % list(e.unmodelled)[0])
    return sorted(set(bad))
