"""VAI client (DESIGN §3.5): every subtag validator accepts exactly its production, normalises as specified,
returns the specified error, for all byte strings at once."""
import json
import os
import re
from .. import shape as sh
from ..shape import Shape
from .. import px as pxm

VERIF = os.path.dirname(os.path.dirname(os.path.dirname(os.path.abspath(__file__))))
CLASSES = {'alpha': sh.ALPHA, 'digit': sh.DIGIT, 'alnum': sh.ALNUM, 'upper': sh.UPPER, 'lower': sh.LOWER, 'any': sh.FULL}


class Role:
    def __init__(self, name, j):
        self.name = name
        self.j = j
        pieces = []
        for p in j['pieces']:
            for n in p['lens']:
                if 'all' in p:
                    pieces.append((n, [CLASSES[p['all']]] * n))
                else:
                    pieces.append((n, [CLASSES[c] for c in p['pos']]))
        self.accept = sh.spec_shape(pieces)
        self.transform = j.get('transform')
        self.special = j.get('special')
        self.error = j.get('error')
        self.wrapper = j.get('wrapper')
        self.is_bool = j.get('bool', False)
        self.optional = j.get('optional', False)

    def special_shape(self):
        if not self.special:
            return Shape.bottom()
        lit = self.special['literal'].encode()
        masks = [sh.mask(lambda b, ch=ch: sh.t_lower(b) == ch) for ch in lit]
        return Shape.product(len(lit), masks)


def load_roles():
    with open(os.path.join(VERIF, 'spec', 'shapes.json')) as f:
        j = json.load(f)
    return {k: Role(k, v) for k, v in j['roles'].items()}


def module_of_type(facts, type_suffix):
    c = [n for n in facts.adts if n.endswith('::' + type_suffix)]
    if len(c) != 1:
        return None
    return c[0].rsplit('::', 1)[0]


def find_validators(facts):
    """role -> list of def paths; resolved by public type names and signatures, not by private function names"""
    out = {}
    missing = []
    bodies = facts.bodies
    # the four subtag types: inherent pub fn(&[u8]) -> Result<Self, _>
    for role in ('Language', 'Script', 'Region', 'Variant'):
        adt = [n for n in facts.adts if n.startswith('unic_langid_impl::') and n.endswith('::' + role)]
        fns = []
        for a in adt:
            for n, b in bodies.items():
                if b['kind'] != 'AssocFn' or not b.get('impl') or b['impl']['trait']:
                    continue
                if b['parent'] != a and not pxm.PX.ty_eq(b['impl']['self_ty'], a.split('::', 1)[1]):
                    continue
                s = b['sig']
                if s and s['inputs'] == ['&[u8]'] and s['output'].startswith('std::result::Result<') and not s['unsafe'] \
                        and pxm.PX.ty_eq(pxm.split_generics(s['output'])[1][0], b['impl']['self_ty']):
                    fns.append(n)
        if fns:
            out[role] = sorted(fns)
        else:
            missing.append(role)
    # helper validators of the three extension modules, by module (of the public list type) and signature
    table = [
        ('UnicodeExtensionList', [('ukey', r'^std::result::Result<tinystr::TinyAsciiStr<4>, .*ParserError>$'),
                                  ('utype', r'^std::result::Result<std::option::Option<tinystr::TinyAsciiStr<8>>, .*ParserError>$'),
                                  ('uattr', r'^std::result::Result<tinystr::TinyAsciiStr<8>, .*ParserError>$'),
                                  ('is_utype', r'^bool$')]),
        ('TransformExtensionList', [('tkey', r'^std::result::Result<tinystr::TinyAsciiStr<4>, .*ParserError>$'),
                                    ('tvalue', r'^std::result::Result<std::option::Option<tinystr::TinyAsciiStr<8>>, .*ParserError>$'),
                                    ('is_tlang_start', r'^bool$')]),
        ('PrivateExtensionList', [('privatetag', r'^std::result::Result<tinystr::TinyAsciiStr<8>, .*ParserError>$')]),
    ]
    for ty, sigs in table:
        mod = module_of_type(facts, ty)
        if mod is None:
            missing.extend(r for r, _ in sigs)
            continue
        for role, pat in sigs:
            fns = [n for n, b in bodies.items() if b['kind'] == 'Fn' and b['parent'] == mod and b['sig']
                   and b['sig']['inputs'] == ['&[u8]'] and re.match(pat, b['sig']['output'])]
            if not fns:
                # the helper may live in another module (shared between the -u- and -t- lists): free functions of that signature that the
                # functions of this module call
                called = set()
                for n, b in bodies.items():
                    if n.startswith(mod + '::') and b.get('mir'):
                        for blk in b['mir']['blocks']:
                            t = blk['term']
                            if t['k'] == 'call':
                                called.add(t['r'] or t['f'])
                            for st_ in blk['stmts']:
                                # fn items passed as callbacks (`.map(parse_value)`)
                                for m in re.finditer(r"'fn': '([^']+)'", str(st_)) if st_['k'] == 'assign' else ():
                                    called.add(m.group(1))
                            for m in re.finditer(r"'fn': '([^']+)'", str(t.get('args', ''))) if t['k'] == 'call' else ():
                                called.add(m.group(1))
                fns = [n for n in called if n in bodies and bodies[n]['kind'] == 'Fn' and bodies[n]['sig'] and bodies[n]['sig']['inputs'] == ['&[u8]']
                       and re.match(pat, bodies[n]['sig']['output']) and n.split('::')[0] == mod.split('::')[0]]
            if fns:
                out[role] = sorted(fns)
            else:
                missing.append(role)
    return out, missing


def classify_ret(px, st, ret):
    """-> ('ok', payload) | ('err', value) | ('bool', b) | ('?', ret)"""
    if ret is None:
        return ('?', ret)
    if ret[0] == 'adt' and ret[2] == 'Ok':
        return ('ok', ret[3][0])
    if ret[0] == 'adt' and ret[2] == 'Err':
        return ('err', ret[3][0])
    if ret[0] == 'int' and ret[1] in (0, 1):
        return ('bool', bool(ret[1]))
    return ('?', ret)


def payload_desc(v):
    """normalise an Ok payload: returns (wrapper name or None, 'none' | ('tiny', subj, xf) | ('?', v))"""
    wrapper = None
    if v[0] == 'adt' and len(v[3]) == 1 and v[2] not in ('Some', 'None', 'Ok', 'Err'):
        wrapper = v[2]
        v = v[3][0]
    if v[0] == 'adt' and v[2] == 'None':
        return wrapper, 'none'
    if v[0] == 'adt' and v[2] == 'Some':
        v = v[3][0]
    if v[0] == 'tiny':
        return wrapper, v
    return wrapper, ('?', v)


class ValidatorResult:
    def __init__(self, fn, role):
        self.fn, self.role = fn, role
        self.accept = Shape.bottom()
        self.reject = Shape.bottom()
        self.segments = 0
        self.ok_sites = 0
        self.err_sites = 0
        self.exact = False


def subject_shape(st, subj):
    s = st.shapes.get(subj)
    return s if s is not None else Shape.top()


def analyse(program, fn, role, rep, prop_prefix='', seg_filter=None, keytag='validator'):
    """Explore validator `fn` and emit obligations into `rep`.  Returns ValidatorResult."""
    e = pxm.PX(program)
    body = program.bodies[fn]
    site = body['span']
    res = ValidatorResult(fn, role.name)
    key = '%s:%s:%s' % (keytag, role.name, fn_key(fn))
    try:
        segs = e.explore(fn)
    except pxm.Limit as ex:
        rep.ob(key + ':explore', 'VAI-EXPLORE', fn, site, 'validator body explored', False, 'INCONCLUSIVE(%s)' % ex)
        return res
    if seg_filter:
        segs = [s for s in segs if seg_filter(e, s)]
    subj = ('P', ('param', 1))
    subjs = set()
    for s in segs:
        subjs.update(k for k in s.state.shapes if k[0] != 'B1')
    if len(subjs) == 1:
        subj = subjs.pop()
    elif len(subjs) > 1:
        rep.ob(key + ':explore', 'VAI-EXPLORE', fn, site, 'validator has a single byte-string subject', False, 'INCONCLUSIVE(several subjects: %s)' % ', '.join(e.fmt(x) for x in subjs))
        return res
    res.segments = len(segs)
    inconcl = dict(e.undecided)
    inconcl.update({'extern ' + k: v for k, v in e.unmodelled.items()})
    over_acc, over_rej, bad_payload, bad_err, panics = [], [], [], [], []
    acc_parts, rej_parts = [], []
    special = role.special_shape()
    if role.is_bool:
        # a boolean validator may return an undecided predicate term: decide it (exact shape refinement) at the return
        split = []
        for s in segs:
            if s.kind == 'return' and s.ret is not None and s.ret[0] != 'int':
                try:
                    for bval, st2 in e.decide_bool(s.state, s.ret):
                        split.append(pxm.Segment(s.src, s.dst, st2, ('int', 1 if bval else 0), s.events, s.kind))
                except Exception:
                    split.append(s)
            else:
                split.append(s)
        segs = split
        inconcl = dict(e.undecided)
        inconcl.update({'extern ' + k: v for k, v in e.unmodelled.items()})
        subjs = set()
        for s in segs:
            subjs.update(k for k in s.state.shapes if k[0] != 'B1')
        if len(subjs) == 1:
            subj = subjs.pop()
    for s in segs:
        S = subject_shape(s.state, subj)
        if s.kind == 'panic':
            if not S.is_empty():
                panics.append((s, S))
            continue
        if s.kind != 'return':
            if s.kind == 'unreachable':
                continue
            over_rej.append(('non-return segment %s' % s.kind, S))
            continue
        kind, val = classify_ret(e, s.state, s.ret)
        if kind == 'bool' and role.is_bool:
            kind = 'ok' if val else 'err'
            val = None
        if kind == 'ok':
            res.ok_sites += 1
            acc_parts.append(S)
            extra = S.minus(role.accept)
            if not extra.is_empty():
                over_acc.append((extra, s))
            if not role.is_bool:
                wrapper, pd = payload_desc(val)
                if role.wrapper and wrapper != role.wrapper:
                    bad_payload.append(('payload is not wrapped in %s: %s' % (role.wrapper, e.short(val)), S))
                if pd == 'none':
                    if not role.special:
                        bad_payload.append(('payload None but the role has no special literal', S))
                    else:
                        ex = S.minus(special)
                        if not ex.is_empty():
                            bad_payload.append(('empty payload returned for a string other than %r (any case), e.g. %r' % (role.special['literal'], ex.example()), ex))
                elif pd[0] == 'tiny':
                    if pd[1] != subj:
                        bad_payload.append(('payload text is not the validated input: %s' % e.short(pd), S))
                    ok, why = sh.transforms_agree(S.intersect(role.accept), pd[2] or ('id',), (role.transform,))
                    if not ok:
                        bad_payload.append(('case normalisation differs from %s: %s' % (role.transform, why), S))
                    if role.special:
                        both = S.intersect(special)
                        if not both.is_empty():
                            bad_payload.append(('%r (any case) is stored as text instead of the empty value, e.g. %r' % (role.special['literal'], both.example()), both))
                else:
                    bad_payload.append(('payload not understood: INCONCLUSIVE(%s)' % e.short(val), S))
        elif kind == 'err':
            res.err_sites += 1
            rej_parts.append(S)
            lost = S.intersect(role.accept)
            if not lost.is_empty():
                over_rej.append((lost, s))
            if not role.is_bool:
                ev = val
                while ev and ev[0] == 'errfrom':
                    ev = ev[1]
                if not (ev and ev[0] == 'adt' and ev[2] == role.error):
                    bad_err.append((e.short(val), S))
        else:
            over_rej.append(('return value not understood: INCONCLUSIVE(%s)' % e.short(s.ret), S))
    res.accept = Shape.union_of(acc_parts)
    res.reject = Shape.union_of(rej_parts)
    note = ''
    if inconcl:
        note = ' [conditions not interpreted: %s]' % '; '.join('%s x%d' % kv for kv in list(inconcl.items())[:4])

    def ex_of(x):
        if isinstance(x, Shape):
            b = x.example()
            return repr(b) if b is not None else None
        return None
    rep.ob(key + ':no-over-acceptance', 'VAI-ACCEPT', fn, site,
           '%s: every accepted byte string is in the %s production' % (short_fn(fn), role.name), not over_acc,
           detail='\n'.join('accept site reachable with %s   e.g. %r' % (x.describe()[:400], x.example()) for x, _ in over_acc) + note,
           how='%d accepting paths, union = %s' % (res.ok_sites, res.accept.describe()[:200]),
           witness=ex_of(over_acc[0][0]) if over_acc else None)
    rep.ob(key + ':no-over-rejection', 'VAI-REJECT', fn, site,
           '%s: no string of the %s production is rejected' % (short_fn(fn), role.name), not over_rej,
           detail='\n'.join(('reject site reachable with %s   e.g. %r' % (x.describe()[:400], x.example())) if isinstance(x, Shape) else str(x) for x, _ in over_rej) + note,
           how='%d rejecting paths disjoint from the production' % res.err_sites,
           witness=ex_of(over_rej[0][0]) if over_rej else None)
    if not role.is_bool:
        rep.ob(key + ':payload', 'VAI-PAYLOAD', fn, site,
               '%s: stored text is the input under the %s transform%s' % (short_fn(fn), role.transform, ' (%r = empty value)' % role.special['literal'] if role.special else ''),
               not bad_payload, detail='\n'.join(str(x) for x, _ in bad_payload) + note, how='payload origins and transforms checked on %d paths' % res.ok_sites)
        rep.ob(key + ':error', 'VAI-ERROR', fn, site, '%s: every rejection returns %s' % (short_fn(fn), role.error), not bad_err,
               detail='\n'.join('returns %s' % x for x, _ in bad_err), how='%d error sites' % res.err_sites)
    rep.ob(key + ':no-panic', 'VAI-PANIC', fn, site, '%s: no panic site reachable for any byte string' % short_fn(fn), not panics,
           detail='\n'.join('panic %s reachable with %s e.g. %r' % ([ev for ev in s.events if ev[0] == 'panic'][-1][1:4], S.describe()[:300], S.example()) for s, S in panics),
           how='%d paths' % len(segs))
    # partition sanity: accept and reject sets cover everything and do not overlap (all conditions understood)
    cover = Shape.union_of([res.accept, res.reject] + [S for _, S in panics])
    total = Shape.top().minus(cover).is_empty()
    overlap = res.accept.intersect(res.reject)
    res.exact = total and overlap.is_empty() and not inconcl
    rep.ob(key + ':decided-everywhere', 'VAI-EXACT', fn, site, '%s: the analysis decides every byte string (accept/reject partition)' % short_fn(fn),
           res.exact, detail='INCONCLUSIVE: overlap=%s uncovered=%s %s' % (overlap.describe()[:200], Shape.top().minus(cover).describe()[:200], note),
           how='accept and reject shapes partition all byte strings')
    return res


def short_fn(fn):
    return '::'.join(fn.split('::')[-2:])


def fn_key(fn):
    # crate + last two path segments: survives moving between modules of the same crate
    parts = fn.split('::')
    return parts[0] + '::' + '::'.join(parts[-2:])


_direct = {}


def direct_unsafe_callers(facts, U, ext_re):
    key = id(facts)
    if key not in _direct:
        out = set()
        for n, b in facts.bodies.items():
            if not b.get('mir'):
                continue
            for blk in b['mir']['blocks']:
                t = blk['term']
                if t['k'] == 'call' and ((t.get('r') or t.get('f') or '') in U or ext_re.search(t.get('r') or t.get('f') or '')):
                    out.add(n)
        _direct[key] = out
    return _direct[key]


_callers = {}


def callers_of(facts, fn):
    key = id(facts)
    if key not in _callers:
        m = {}
        for n, b in facts.bodies.items():
            if not b.get('mir'):
                continue
            for blk in b['mir']['blocks']:
                t = blk['term']
                if t['k'] == 'call':
                    m.setdefault(t.get('r') or t.get('f'), set()).add(n)
                for x in re.finditer(r"'fn': '([^']+)'", str(blk)):
                    m.setdefault(x.group(1), set()).add(n)
        _callers[key] = m
    return _callers[key].get(fn, set())


def constructor_sites(program, rep, found):
    """PROV: a value of a subtag type is built (struct aggregate) only inside its validator, inside an `unsafe` unchecked constructor, in derive
    output, or as the empty language Language(None): no safe function can mint a subtag from unvalidated text"""
    from .. import terms
    facts = program.facts
    n = 0
    for role in ('Language', 'Script', 'Region', 'Variant'):
        adts = [a for a in facts.adts if a.startswith('unic_langid_impl::') and a.endswith('::' + role)]
        allowed = set(found.get(role, []))
        for fn, b in sorted(facts.bodies.items()):
            if not b.get('mir') or not fn.startswith(('unic_langid_impl::', 'unic_locale_impl::')):
                continue
            if fn in allowed or (b.get('sig') and b['sig']['unsafe']) or (b.get('impl') and b['impl'].get('derived')):
                continue
            if b['kind'] == 'Closure' and any(fn.startswith(a + '::') for a in allowed):
                continue
            builds = False
            for blk in b['mir']['blocks']:
                for st_ in blk['stmts']:
                    if st_['k'] == 'assign' and st_['rv']['k'] == 'agg' and st_['rv']['kind'].get('agg') == 'adt' and st_['rv']['kind'].get('def') in adts:
                        builds = True
            if not builds:
                continue
            if not b.get('reach'):
                # a private helper (`fn wrap(s) -> Self { Self(s) }`): fine when only validators / unchecked constructors call it (the validator
                # analysis explores it inline, so exactness is decided there)
                callers = callers_of(facts, fn)
                if callers and all(c in allowed or (facts.bodies[c].get('sig') and facts.bodies[c]['sig']['unsafe']) or (facts.bodies[c].get('impl') and facts.bodies[c]['impl'].get('derived'))
                                   or any(c.startswith(a + '::') for a in allowed) for c in callers):
                    continue
            n += 1
            e = pxm.PX(program, opaque=allowed)       # what the validator builds is the validator's business (VAI): keep it opaque here
            bad = []
            try:
                segs = e.explore(fn)
            except pxm.Limit as ex:
                segs = []
                bad.append('INCONCLUSIVE(%s)' % ex)
            for sg in segs:
                vals = []
                if sg.ret is not None:
                    vals.extend(terms.find_terms(sg.ret, lambda t: t[0] == 'adt' and t[1] in adts))
                for ev in sg.state.events:
                    if ev[0] in ('store', 'lstore'):
                        vals.extend(terms.find_terms(ev[2], lambda t: t[0] == 'adt' and t[1] in adts))
                for v in vals:
                    pay = v[3][0] if v[3] else None
                    if role == 'Language' and pay is not None and pay[0] == 'adt' and pay[2] == 'None':
                        continue
                    bad.append('builds a %s from %s without going through %s::from_bytes' % (role, e.short(pay, 100), role))
            rep.ob('prov:ctor:%s:%s' % (role, fn_key(fn)), 'PROV-CTOR', fn, b['span'], '%s does not construct a %s from unvalidated text' % (short_fn(fn), role), not bad,
                   detail='\n'.join(sorted(set(bad))[:3]))
    return n


def literal_subtag_text(n, width):
    """little-endian bytes of an integer literal up to the first NUL (the packing `from_raw_unchecked` undoes); None if it is not such a string"""
    try:
        raw = int(n).to_bytes(width, 'little')
    except (OverflowError, ValueError):
        return None
    txt = raw.rstrip(b'\0')
    if b'\0' in txt or not txt:
        return None
    return txt


def canonical_subtag(role, b):
    import string
    al = set(string.ascii_lowercase.encode())
    AL = set(string.ascii_uppercase.encode())
    dg = set(string.digits.encode())
    n = len(b)
    if role == 'Language':
        return n in (2, 3, 5, 6, 7, 8) and all(c in al for c in b) and b != b'und'
    if role == 'Script':
        return n == 4 and b[0] in AL and all(c in al for c in b[1:])
    if role == 'Region':
        return (n == 2 and all(c in AL for c in b)) or (n == 3 and all(c in dg for c in b))
    if role == 'Variant':
        return (5 <= n <= 8 and all(c in al or c in dg for c in b)) or (n == 4 and b[0] in dg and all(c in al or c in dg for c in b[1:]))
    return False


def unsafe_ctor_callers(program, rep):
    """PROV-UNSAFE (who-may-call): the unchecked constructors (`from_raw_unchecked`, `TinyAsciiStr::from_bytes_unchecked` and the unsafe repository
    functions that reach them) are called from safe code only with table data (elements of the bundled statics, whose well-formedness is the TAB-DECODE
    obligation), constants or values already of a validated type - never with a caller-supplied integer or byte string"""
    from .. import terms, callgraph
    facts = program.facts
    base = set(n for n, b in facts.bodies.items() if n.startswith('unic_langid_impl::') and b.get('sig') and b['sig']['unsafe'] and n.endswith('::from_raw_unchecked'))
    cg = callgraph.CallGraph(program)
    U = set(base)
    for n, b in facts.bodies.items():
        if n.startswith(('unic_langid_impl::', 'unic_locale_impl::')) and b.get('sig') and b['sig']['unsafe'] and b['kind'] in ('Fn', 'AssocFn') and (cg.reachable([n]) & base):
            U.add(n)
    ext_unchecked = re.compile(r'TinyAsciiStr::<N>::from_bytes_unchecked$|str::from_utf8_unchecked$')
    n_sites = 0
    for fn, b in sorted(facts.bodies.items()):
        if not b.get('mir') or not fn.startswith(('unic_langid_impl::', 'unic_locale_impl::')) or fn in U:
            continue
        if (b.get('sig') and b['sig']['unsafe']) or (b.get('impl') and b['impl'].get('derived')):
            continue
        root = fn.split('::{closure')[0]
        if root in U or (facts.bodies.get(root, {}).get('sig') or {}).get('unsafe'):
            continue
        # roots of the analysis: public functions, trait-impl methods, functions nobody in the repository calls, and functions with loops (never
        # explored inline).  Private loop-free helpers and closures that wrap the unsafe call are explored inline from those roots, with the
        # arguments their callers really pass.
        direct = direct_unsafe_callers(facts, U, ext_unchecked)
        if not (cg.reachable([fn]) & direct) and fn not in direct:
            continue
        if b['kind'] == 'Closure':
            continue
        is_root = bool(b.get('reach')) or bool(b.get('impl') and b['impl']['trait']) or program.has_loops(fn) or not callers_of(facts, fn) or b['kind'] in ('Const', 'AssocConst')
        if not is_root:
            continue
        e = pxm.PX(program, opaque=U)
        bad = []
        try:
            segs = e.explore(fn)
        except pxm.Limit as ex:
            segs = []
            bad.append('INCONCLUSIVE(%s)' % ex)
        for sg in segs:
            for ev in sg.state.events:
                if ev[0] != 'call' or not (ev[1] in U or ext_unchecked.search(ev[1])):
                    continue
                n_sites += 1
                csig = (facts.bodies.get(ev[1], {}).get('sig') or {}).get('inputs')
                for ai, a in enumerate(ev[2]):
                    pty = csig[ai] if csig and ai < len(csig) else 'u64'
                    if not re.search(r'\b(u8|u16|u32|u64|u128|usize)\b|TinyAsciiStr', pty):
                        continue          # a parameter of a validated type (Language, Option<Script> ...): whatever is passed was validated when it was built
                    # a literal handed to a subtag's unchecked constructor must itself be canonical text of that subtag's production (and never the
                    # text "und": the empty language has no integer form) - `const ROOT: Language = unsafe { from_raw_unchecked(0x646e75) }`
                    mrole = re.search(r'(?:^|::)(Language|Script|Region|Variant)::from_raw_unchecked$', ev[1])
                    if mrole and isinstance(a, tuple) and a and a[0] == 'int':
                        width = 8 if mrole.group(1) in ('Language', 'Variant') else 4
                        txt = literal_subtag_text(a[1], width)
                        if txt is None or not canonical_subtag(mrole.group(1), txt):
                            bad.append('%s::from_raw_unchecked receives the literal %d (%r): not the canonical text of a %s' % (mrole.group(1), a[1], txt, mrole.group(1)))
                        continue
                    LEAF = ('param', 'init', 'lv', 'call', 'byte', 'tiny', 'len', 'slice')
                    leaves = terms.find_terms(a, lambda t: t[0] in LEAF)
                    # leaves that occur inside the index of a table-row term (computed once per argument)
                    inside = set()
                    if leaves:
                        for u in terms.find_terms(a, lambda u: u[0] == 'elem' and u[1][0] == 'unk' and u[1][1][0] == 'ST'):
                            for w in terms.find_terms(u[2], lambda w: w[0] in LEAF):
                                inside.add(w)
                    for t in leaves:
                        # allowed: nothing that depends on the caller's input.  Table rows are ('elem', ('unk', ('ST', static)), index) terms: their index may be a search result
                        if t[0] == 'call' and re.search(r'::binary_search(_by|_by_key)?$', t[1]):
                            continue
                        if t in inside:
                            continue
                        bad.append('%s receives %s, which is not table data' % (ev[1].split('::')[-2] + '::' + ev[1].split('::')[-1], e.short(a, 120)))
                        break
        rep.ob('prov:unsafe:%s' % fn_key(fn), 'PROV-UNSAFE', fn, b['span'], '%s calls the unchecked constructors only with table data' % short_fn(fn), not bad,
               detail='\n'.join(sorted(set(bad))[:3]), how='%d call sites' % n_sites)
    return n_sites


def run_all(program, rep, roles_wanted=None):
    roles = load_roles()
    found, missing = find_validators(program.facts)
    if roles_wanted is None or {'Language', 'Script', 'Region', 'Variant'} <= set(roles_wanted):
        constructor_sites(program, rep, found)
        unsafe_ctor_callers(program, rep)
    results = {}
    for r in missing:
        if roles_wanted is None or r in roles_wanted:
            if r not in ('Language', 'Script', 'Region', 'Variant'):
                # a private helper of an extension module: when no function has the expected shape any more (merged, inlined, different return type)
                # there is nothing to analyse on its own - what the parsers and setters accept is decided on their own paths (PARSE-TABLE, TS-EFFECT)
                rep.notes.append('no stand-alone helper validator for role %s (decided in context by the parser tables and the setter effects)' % r)
                continue
            rep.ob('validator:%s:anchor' % r, 'ANCHOR', '-', '-', 'validator for role %s found' % r, False,
                   'ANCHOR-MISSING: no function with the expected type and signature for role %s' % r)
    class _Quiet:
        def ob(self, *a, **k):
            return None

        def floor(self, *a, **k):
            return None

        def count(self, *a, **k):
            return None
        notes = []
    for role, fns in sorted(found.items()):
        if roles_wanted is not None and role not in roles_wanted:
            continue
        if roles[role].is_bool and len(fns) > 1:
            # several `fn(&[u8]) -> bool` helpers in the module: the pre-check of this role is the one whose accepted set is closest to the role's
            # production (the others are helpers of other tests - what the parser does with them is decided by the parser tables)
            best, score = None, None
            exact = []
            for fn in fns:
                try:
                    r = analyse(program, fn, roles[role], _Quiet())
                    acc = r.accept if r is not None else None
                except Exception:
                    acc = None
                if acc is None:
                    continue
                sc = (acc.minus(roles[role].accept).is_empty(), roles[role].accept.minus(acc).is_empty())
                sc = (sc[0] and sc[1], sc[1], sc[0])
                if sc[0]:
                    exact.append(fn)
                if score is None or sc > score:
                    best, score = fn, sc
            fns = exact if exact else ([best] if best is not None else fns[:1])
        for fn in fns:
            rr = role
            if role == 'is_utype':
                rr = 'is_utype'
            # one function may serve several roles (a value validator shared by the -u- and -t- lists): it is analysed once per role
            results[fn if fn not in results else '%s#%s' % (fn, role)] = analyse(program, fn, roles[rr], rep)
    return results, found
