"""C20 — optional features are purely additive (DESIGN §4.20)."""
from .. import facts, diff
from . import common

# (base config, feature config, crates compared)
PAIRS_QUICK = [
    ('K0', 'K1', ['unic_langid_impl', 'unic_locale_impl'], 'likelysubtags'),
    ('K0', 'K2', ['unic_langid_impl'], 'serde'),
    ('K0', 'K3', ['unic_langid_impl', 'unic_locale_impl', 'unic_langid', 'unic_locale', 'unic_langid_macros', 'unic_locale_macros',
                  'unic_langid_macros_impl', 'unic_locale_macros_impl'], 'all features'),
]
PAIRS_QUICK += [
    # one feature on top of the other (both configurations are dumped anyway): code that exists only with likelysubtags (maximize / minimize)
    # must not change when serde is switched on as well, and vice versa
    ('K1', 'K3', ['unic_langid_impl', 'unic_locale_impl'], 'serde (and the rest) on top of likelysubtags'),
    ('K2', 'K3', ['unic_langid_impl'], 'likelysubtags (and the rest) on top of serde'),
]
PAIRS_QUICK += [
    # the macros feature on its own (facade crates): must not drag in anything that changes the impl crates
    ('K12', 'K5', ['unic_langid', 'unic_langid_impl'], 'unic-langid macros'),
    ('K13', 'K7', ['unic_locale', 'unic_locale_impl', 'unic_langid_impl'], 'unic-locale macros'),
]
PAIRS_THOROUGH = PAIRS_QUICK + [
    ('K0', 'K4', ['unic_langid_impl'], 'likelysubtags+serde'),
    ('K1', 'K4', ['unic_langid_impl'], 'serde on top of likelysubtags'),
    ('K2', 'K4', ['unic_langid_impl'], 'likelysubtags on top of serde'),
    ('K12', 'K9', ['unic_langid', 'unic_langid_impl'], 'unic-langid serde'),
    ('K12', 'K10', ['unic_langid', 'unic_langid_impl'], 'unic-langid likelysubtags'),
    ('K12', 'K6', ['unic_langid', 'unic_langid_impl'], 'unic-langid all'),
    ('K5', 'K6', ['unic_langid', 'unic_langid_impl', 'unic_langid_macros', 'unic_langid_macros_impl'], 'unic-langid serde+likelysubtags on top of macros'),
    ('K13', 'K11', ['unic_locale', 'unic_locale_impl', 'unic_langid_impl'], 'unic-locale likelysubtags'),
    ('K13', 'K8', ['unic_locale', 'unic_locale_impl', 'unic_langid_impl'], 'unic-locale all'),
    ('K7', 'K8', ['unic_locale', 'unic_locale_impl', 'unic_langid_impl', 'unic_locale_macros', 'unic_locale_macros_impl'], 'unic-locale likelysubtags on top of macros'),
]

# the single documented refinement (property statement); its content is decided by the C14 cascade rule in both configurations
EXCEPTIONS = {'unic_langid_impl::LanguageIdentifier::character_direction': 'documented refinement of character_direction for script-less identifiers (checked by the C14 cascade rule in both configurations)'}


def run(tier, replay=None):
    rep = common.new_report('C20', tier, 'translation_validation')
    pairs = PAIRS_THOROUGH if tier == 'thorough' else PAIRS_QUICK
    cfgs = sorted(set([p[0] for p in pairs] + [p[1] for p in pairs]), key=lambda c: int(c[1:]))
    facts.dump_many(cfgs)
    programs = 0
    shared_total = 0
    samples = []
    for base, feat, crates, label in pairs:
        fb, ff = facts.load(base), facts.load(feat)
        for cr in crates:
            if cr not in fb.crates or cr not in ff.crates:
                rep.ob('diff:%s:%s->%s:present' % (cr, base, feat), 'DIFF-ANCHOR', cr, '-', 'crate %s present in %s and %s' % (cr, base, feat), False,
                       'ANCHOR-MISSING: crate not built in one of the configurations')
                continue
            # the documented refinement exists only where the likelysubtags feature of unic-langid-impl is switched on by this pair
            lb = [c for c in fb.crates['unic_langid_impl'].cfgs if 'likelysubtags' in str(c)] if 'unic_langid_impl' in fb.crates else []
            lf = [c for c in ff.crates['unic_langid_impl'].cfgs if 'likelysubtags' in str(c)] if 'unic_langid_impl' in ff.crates else []
            exc = EXCEPTIONS if (lf and not lb) else {}
            res = diff.compare_crate(fb.crates[cr], ff.crates[cr], exc)
            programs += res['shared']
            shared_total += res['shared']
            key = 'diff:%s:%s' % (cr, label)
            rep.ob(key + ':bodies', 'DIFF-BODY', cr, '-', '%s: every body of the base build has identical MIR with %s enabled' % (cr, label),
                   not res['changed'] and not res['removed'],
                   detail='\n'.join(['%s [%s] differs at %s' % (n, sp, d) for n, d, sp in res['changed'][:5]] + ['%s removed by the feature' % n for n in res['removed'][:5]]),
                   how='%d shared bodies identical, %d added, %d named exception(s)' % (res['shared'] - len(res['changed']) - len(res['excepted']), len(res['added']), len(res['excepted'])),
                   witness=res['changed'][0][0] if res['changed'] else None)
            rep.ob(key + ':items', 'DIFF-ITEM', cr, '-', '%s: types, impls, statics and the crate-root surface of the base build are unchanged with %s' % (cr, label),
                   not res['items'], detail='\n'.join(res['items'][:6]), how='+%d impls, +%d root items' % (len(res['added_impls']), len(res['added_root'])))
            if len(samples) < 12:
                samples.append({'crate': cr, 'base': base, 'with': feat, 'features': label, 'shared_bodies': res['shared'], 'added_bodies': res['added'][:6],
                                'excepted': [n for n, _ in res['excepted']], 'added_root_items': res['added_root']})
    rep.count('configurations dumped', ', '.join('%s (%s)' % (c, facts.CONFIGS[c][1]) for c in cfgs))
    rep.count('configuration pairs / bodies compared', '%d / %d' % (len(pairs), shared_total))
    rep.floor('bodies compared across configurations', shared_total, 255)
    rep.extra['programs'] = programs
    rep.extra['disagreements_checked'] = len([o for o in rep.obls if not o.ok])
    rep.extra['pair_samples'] = samples
    # the feature that selects this code must be reachable from the crate a user enables it on (manifest wiring)
    from .. import features
    features.check(rep)
    # the macros feature adds APIs that build values at compile time: "the only observable differences are the extra APIs themselves" holds only
    # if what they build is what parsing the same literal gives (the witness leg of C16, cached per tree)
    from . import c16
    c16.witness_family(rep, tier)
    rep.explanation = ('For each crate and each feature set F, every function body, type, impl, static and root item of the base build is compared with the '
                       'build with F enabled (canonical MIR, DefIndex numbers and crate disambiguators stripped); bodies only in F are additions. '
                       'One named exception: character_direction, whose content is decided by the cascade rule of C14 in both configurations.')
    rep.assumptions = ['identical MIR at opt-level 0 implies identical behaviour of the body; behaviour of dependencies (tinystr, serde) under feature unification is not analysed',
                       'quick tier: {none, likelysubtags, serde, all}; thorough tier: all listed feature subsets of the impl and facade crates']
    return rep.finish()
