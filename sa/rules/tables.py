"""TAB obligations (DESIGN §3.13 / §4.18): compiled statics == independent derivation from the CLDR JSON."""
from .. import tab, facts as factsmod
from . import pair

ROLE_KEYS = {'LANG_ONLY': ('lang',), 'LANG_REGION': ('lang', 'region'), 'LANG_SCRIPT': ('lang', 'script'),
             'SCRIPT_REGION': ('script', 'region'), 'SCRIPT_ONLY': ('script',), 'REGION_ONLY': ('region',)}
WIDTH = {'lang': 8, 'script': 4, 'region': 4}


def wellformed(kind, b):
    if b is None:
        return False
    if kind == 'lang':
        return tab.is_lang_text(b) and b == b.lower()
    if kind == 'script':
        return tab.is_script_text(b) and b == b[:1].upper() + b[1:].lower()
    if kind == 'region':
        return tab.is_region_text(b) and b == b.upper()
    return False


def byte_order(prog, rep):
    enc = pair.raw_encoding(prog, None)
    orders = set(i['decode'] for i in enc.values())
    if len(orders) == 1 and None not in orders and orders <= {'little', 'big'}:
        return orders.pop()
    rep.ob('tab:byte-order', 'TAB-ORDER', '-', '-', 'the byte order of from_raw_unchecked is determined (PAIR)', False, 'decoders use %s' % orders)
    return 'little'


def likely(prog, rep):
    """the six likely-subtags tables; returns (CompiledTables, expected, order)"""
    repo = factsmod.REPO
    order = byte_order(prog, rep)
    ct = tab.CompiledTables(prog.facts, order)
    exp, version, problems, raw = tab.derive_likely(repo, order)
    for e in ct.errors:
        rep.ob('tab:anchor:%s' % e[:60], 'TAB-ANCHOR', '-', '-', 'tables resolved', False, 'ANCHOR-MISSING: ' + e)
    for p in problems:
        rep.ob('tab:cldr:%s' % p[:60], 'TAB-CLDR', '-', tab.LIKELY_JSON, 'CLDR entry representable', False, p)
    nrows = 0
    for role in sorted(ROLE_KEYS):
        t = ct.roles.get(role)
        if t is None:
            rep.ob('tab:%s:anchor' % role, 'TAB-ANCHOR', '-', '-', 'static table for %s found' % role, False, 'ANCHOR-MISSING: no static of the expected element type resolves to %s' % role)
            continue
        rows = t['rows']
        nrows += len(rows)
        name = t['name']
        rep.ob('tab:%s:length' % role, 'TAB-LEN', name, t['span'], '%s: declared length equals the number of rows' % role, t['declared_len'] == len(rows),
               detail='declared %d, %d rows' % (t['declared_len'], len(rows)), how='%d rows' % len(rows))
        # strict order under the lookup comparator (lexicographic on the integer key columns)
        bad = [i for i in range(1, len(rows)) if not rows[i - 1][0] < rows[i][0]]
        rep.ob('tab:%s:sorted' % role, 'TAB-SORTED', name, t['span'], '%s: strictly increasing in the integer key order the binary search uses' % role, not bad,
               detail='; '.join('row %d key %s (%s) is not greater than row %d key %s (%s)' % (i, rows[i][0], show_key(role, rows[i][0], order), i - 1, rows[i - 1][0], show_key(role, rows[i - 1][0], order)) for i in bad[:3]),
               how='%d adjacent pairs compared' % max(0, len(rows) - 1), witness=show_key(role, rows[bad[0]][0], order) if bad else None)
        # exact entry set and values
        got = {}
        dup = []
        for k, v in rows:
            if k in got:
                dup.append(k)
            got[k] = v
        want = exp[role]
        missing = [k for k in want if k not in got]
        extra = [k for k in got if k not in want]
        wrong = [k for k in want if k in got and got[k] != want[k][0]]
        rep.ob('tab:%s:keys' % role, 'TAB-KEYS', name, t['span'], '%s: exactly one row per CLDR likelySubtags key of this shape' % role, not (missing or extra or dup),
               detail='missing %s; not in CLDR %s; duplicated %s' % ([want[k][1][0] for k in missing[:4]], [show_key(role, k, order) for k in extra[:4]], [show_key(role, k, order) for k in dup[:4]]),
               how='%d keys, bijection with the JSON' % len(got), witness=(want[missing[0]][1][0] if missing else show_key(role, extra[0], order) if extra else None))
        rep.ob('tab:%s:values' % role, 'TAB-VALUES', name, t['span'], '%s: every row carries the CLDR value' % role, not wrong,
               detail='; '.join('%s: table has %s, CLDR says %s' % (want[k][1][0], show_val(got[k], order), want[k][1][1]) for k in wrong[:4]),
               how='%d values compared' % (len(want) - len(missing)), witness=want[wrong[0]][1][0] if wrong else None)
        # well-formed decode of every integer (what from_raw_unchecked relies on)
        illf = []
        kinds = ROLE_KEYS[role]
        for k, v in rows:
            for kind, n in zip(kinds, k):
                b = tab.dec(n, WIDTH[kind], order)
                if not (wellformed(kind, b) or (role == 'LANG_ONLY' and b == b'und')):
                    illf.append('key %d decodes to %r, not a canonical %s' % (n, b, kind))
            for kind, n in zip(('lang', 'script', 'region'), v):
                if n is not None and not wellformed(kind, tab.dec(n, WIDTH[kind], order)):
                    illf.append('value %d decodes to %r, not a canonical %s' % (n, tab.dec(n, WIDTH[kind], order), kind))
                elif n is not None and kind == 'lang' and tab.dec(n, WIDTH[kind], order) == b'und':
                    # the unchecked constructor would build Language(Some("und")): prints like the empty language, compares unequal to it
                    illf.append('value %d decodes to the text "und": the undetermined language is the empty Language, it has no integer form' % n)
        rep.ob('tab:%s:wellformed' % role, 'TAB-DECODE', name, t['span'], '%s: every stored integer decodes (%s-endian) to a well-formed canonical subtag' % (role, order), not illf,
               detail='; '.join(illf[:4]), how='%d integers decoded' % sum(len(k) + 3 for k, v in rows))
        # C07: every value has all three components; C06: value agrees with its key on the key's own components
        incomplete = [k for k, v in rows if None in v]
        rep.ob('tab:%s:complete' % role, 'TAB-COMPLETE', name, t['span'], '%s: every value carries language, script and region' % role, not incomplete,
               detail='incomplete values at %s' % [show_key(role, k, order) for k in incomplete[:4]], how='%d rows' % len(rows))
        disagree = []
        for k, v in rows:
            for kind, n in zip(kinds, k):
                comp = v[('lang', 'script', 'region').index(kind)]
                if not (role == 'LANG_ONLY' and tab.dec(n, 8, order) == b'und') and comp != n:
                    disagree.append(show_key(role, k, order))
        rep.ob('tab:%s:keeps-key' % role, 'TAB-KEEPS', name, t['span'], '%s: each value repeats the subtags of its own key (given subtags are kept)' % role, not disagree,
               detail='value differs from key at %s' % disagree[:4], how='%d rows' % len(rows))
    # version
    if ct.version is None:
        rep.ob('tab:version', 'TAB-VERSION', '-', '-', 'CLDR version static found', False, 'ANCHOR-MISSING: no &str static')
    else:
        rep.ob('tab:version', 'TAB-VERSION', ct.version[0], ct.version[2], 'advertised CLDR version equals the data version', ct.version[1] == version,
               detail='static says %r, likelySubtags.json says %r' % (ct.version[1], version), how=repr(version))
    rep.ob('tab:total', 'TAB-KEYS', '-', '-', 'the six tables hold every CLDR key', nrows == len(raw), detail='%d rows for %d CLDR keys' % (nrows, len(raw)), how='%d' % nrows)
    return ct, exp, order, nrows


def show_key(role, k, order):
    return '-'.join((tab.dec(n, WIDTH[kind], order) or b'?').decode('latin1') for kind, n in zip(ROLE_KEYS[role], k))


def show_val(v, order):
    return '-'.join(((tab.dec(n, WIDTH[kind], order) or b'?').decode('latin1') if n is not None else '_') for kind, n in zip(('lang', 'script', 'region'), v))


def direction(prog, rep):
    repo = factsmod.REPO
    order = byte_order(prog, rep)
    ct = tab.CompiledTables(prog.facts, order)
    sets, text, locales = tab.derive_layout(repo, order)
    roles = ct.direction_roles(sets)
    nel = 0
    for role in ('LTR', 'RTL', 'TTB', 'LANGS_RTL'):
        if role not in roles:
            rep.ob('dir:%s:anchor' % role, 'TAB-ANCHOR', '-', '-', 'direction constant %s found' % role, False, 'ANCHOR-MISSING')
            continue
        name, (ity, n, vals, span) = roles[role]
        nel += len(vals)
        width = 8 if ity == 'u64' else 4
        kind = 'lang' if role == 'LANGS_RTL' else 'script'
        rep.ob('dir:%s:length' % role, 'TAB-LEN', name, span, '%s: declared length equals the number of elements' % role, n == len(vals), detail='%d vs %d' % (n, len(vals)))
        got = set(vals)
        missing = sets[role] - got
        extra = got - sets[role]
        rep.ob('dir:%s:set' % role, 'TAB-KEYS', name, span, '%s: exactly the %s derivable from the CLDR layout files' % (role, 'right-to-left languages' if kind == 'lang' else 'scripts with this direction'),
               not missing and not extra and len(got) == len(vals),
               detail='missing %s; not derivable %s' % ([text[role][x] for x in sorted(missing)][:6], [(tab.dec(x, width, order) or b'?').decode('latin1') for x in sorted(extra)][:6]),
               how='%d elements' % len(vals), witness=([text[role][x] for x in sorted(missing)] + [(tab.dec(x, width, order) or b'?').decode('latin1') for x in sorted(extra)] + [None])[0])
        illf = [x for x in vals if not wellformed(kind, tab.dec(x, width, order))]
        rep.ob('dir:%s:wellformed' % role, 'TAB-DECODE', name, span, '%s: every element decodes to a well-formed canonical %s' % (role, kind), not illf, detail=str(illf[:4]))
    # the three script sets are pairwise disjoint (so the order in which they are consulted is immaterial)
    if all(r in roles for r in ('LTR', 'RTL', 'TTB')):
        a, b, c = (set(roles[r][1][2]) for r in ('LTR', 'RTL', 'TTB'))
        rep.ob('dir:disjoint', 'TAB-DISJOINT', '-', '-', 'script direction sets are pairwise disjoint', not (a & b or a & c or b & c), detail=str((a & b, a & c, b & c)))
    return roles, sets, locales, nel, order
