"""C08 — minimize preserves meaning, never lengthens, and is idempotent (DESIGN §4.8)."""
from .. import px as pxm
from . import common, likely, c07, tables


def purity(prog, rep, fns):
    for fn in fns:
        b = prog.bodies[fn]
        e = pxm.PX(prog)
        bad = []
        if any(t.startswith('&mut') or 'Cell<' in t for t in b['sig']['inputs']):
            bad.append('takes a mutable or interior-mutable argument')
        for s in e.explore(fn):
            for ev in s.events:
                if ev[0] == 'store':
                    bad.append('writes %s' % e.fmt(ev[1]))
        for name in e.unmodelled:
            bad.append('calls unmodelled %s' % name)
        rep.ob('pure:%s' % fn.split('::')[-1], 'CASC-PURE', fn, b['span'], 'maximize is a pure function of its arguments and the immutable tables (equal calls give equal results)', not bad,
               detail='\n'.join(sorted(set(bad))[:4]))


def run(tier, replay=None):
    rep = common.new_report('C08', tier, 'proof')
    prog = common.program('K1')
    rep.count('configuration', 'K1 (likelysubtags): %d bodies' % len(prog.bodies))
    res = likely.check_minimize(prog, rep)
    # the chosen form equals the reference implementation's only if maximize is the CLDR function: tables and cascade (shared with C06)
    ct, exp, order, nrows = tables.likely(prog, rep)
    likely.check_maximize(prog, rep, ct, order)
    mx = likely.find_likely_fn(prog, 'maximize')
    mn = likely.find_likely_fn(prog, 'minimize')
    purity(prog, rep, mx)
    m = likely.check_method(prog, rep, 'minimize', mn)
    c07.locale_wrappers(prog, rep, m)
    # the lookups key on "the language is und" (Language(None)) and on the integer forms of the stored text: every spelling of und must be stored as None and every
    # subtag in its one canonical form (subtag validators, shared with C15); both method wrappers write the result back (the property speaks of maximizing the minimized form)
    from . import validators, subtag_api
    validators.run_all(common.program('K1'), rep, roles_wanted={'Language', 'Script', 'Region', 'Variant'})
    subtag_api.language_empty(common.program('K1'), rep, validators.load_roles())
    likely.check_method(prog, rep, 'maximize', mx)
    rep.floor('LanguageIdentifier::minimize bodies', len(m), 1)
    rep.count('minimize decision paths / trial forms', '%d / %d' % (res['paths'], res['trials']))
    rep.floor('minimize decision paths', res['paths'], 20)
    # values built by the compile-time macros belong to this property's domain as well: the macro witnesses of C16 (cached per tree)
    from . import c16
    c16.witness_family(rep, tier)
    rep.explanation = ('Structural obligations S1-S7 of DESIGN §4.8 read from the MIR of likelysubtags::minimize (maximize kept as an uninterpreted pure function): '
                       'max := input if full else maximize(input)?; trials (l), (l,r), (l,s) over components of max only, in that order; a form is returned only under '
                       'maximize(form) == Some(max) and is exactly the trial; "unchanged" only after all trials failed; the method writes only language/script/region. '
                       'The laws of the property (same maximization, subset of the maximized subtags, first of the three forms, minimize(maximize(x)) = minimize(x), idempotence) '
                       'follow from S1-S7 for any table contents; C06/C07 supply maximize\'s own laws.')
    rep.assumptions = ['derived PartialEq on the (Language, Option<Script>, Option<Region>) triple is structural equality (std)',
                       '"never lengthens" is decided as the count of script/region subtags (trial forms are sub-forms of max); string length is data']
    return rep.finish()
