"""C01 — every text-accepting API call is total (DESIGN §4.1): panic-freedom (D1), termination (D2a), no recursion (D2b)."""
import re
from .. import px as pxm, callgraph, models
from . import common

IMPL_CRATES = ('unic_langid_impl', 'unic_locale_impl')
PROGRESS_RE = re.compile(r'(as std::iter::Iterator>::next$|iter::Iterator::next$)')
INFINITE_RE = re.compile(r'(iter::Cycle<|iter::Repeat<|iter::RepeatWith<|iter::FromFn<|iter::Successors<|ops::RangeFrom<|sources::repeat|iter::RepeatN<)')


def is_text_sig(b):
    s = b.get('sig')
    if not s:
        return False
    txt = ' '.join(s['inputs'])
    if '[u8]' in txt or re.search(r'(^|[^a-zA-Z_])str\b', txt) or 'u8' in s['inputs']:
        return True
    for bd in s['bounds']:
        if 'AsRef<[u8]>' in bd or 'AsRef<str>' in bd or "Iterator" in bd and '[u8]' in bd:
            return True
    return False


def entry_points(prog, cg):
    eps, likely = [], []
    for n, b in prog.bodies.items():
        if not n.startswith(IMPL_CRATES) or b['kind'] not in ('Fn', 'AssocFn'):
            continue
        if not b['reach'] or (b['sig'] and b['sig']['unsafe']):
            continue
        if b.get('derived') and b.get('impl') and b['impl'].get('derived'):
            continue
        if is_text_sig(b):
            eps.append(n)
    # likely-subtags and direction queries: public functions that reach the likelysubtags module or read layout tables
    for n, b in prog.bodies.items():
        if not n.startswith(IMPL_CRATES) or b['kind'] not in ('Fn', 'AssocFn') or not b['reach'] or n in eps:
            continue
        if b['sig'] and b['sig']['unsafe']:
            continue
        if b.get('impl') and b['impl'].get('derived'):
            continue
        r = cg.reachable([n])
        if any('::likelysubtags::' in x for x in r) or reads_static(prog, r, 'layout_table'):
            likely.append(n)
    # serde support (feature serde): Serialize / Deserialize impls and the visitors they hand to the deserializer are driven by external
    # code with arbitrary text (`visit_str`, `visit_bytes` ...): every body of an impl of a serde trait is an entry point
    for im in prog.facts.impls:
        if re.search(r'(^|::)serde::(ser|de)?(::)?\w*(Serialize|Deserialize|Visitor|DeserializeSeed|Expected)$', im['trait_def']) or im['trait_def'].startswith('serde::'):
            for it in im['items']:
                b = prog.bodies.get(it)
                if b is not None and it.startswith(IMPL_CRATES) and not (b['sig'] and b['sig']['unsafe']) and it not in eps and it not in likely:
                    eps.append(it)
    return sorted(eps), sorted(likely)


def reads_static(prog, fns, needle):
    for f in fns:
        for blk in prog.bodies[f]['mir']['blocks']:
            for s in blk['stmts']:
                if s['k'] == 'assign' and needle in str(s['rv']):
                    return True
            if blk['term']['k'] == 'call' and needle in str(blk['term']['args']):
                return True
    return False


def panic_sites(prog, fns):
    """syntactic inventory of panic-capable sites: (fn, block, kind, what, span)"""
    out = []
    for fn in sorted(fns):
        for bi, blk in enumerate(prog.bodies[fn]['mir']['blocks']):
            if blk['cleanup']:
                continue
            t = blk['term']
            if t['k'] == 'assert':
                out.append((fn, bi, 'assert', t['msg'].split(' ')[0].split('{')[0].split('(')[0], t['sp']))
            elif t['k'] == 'call':
                name = t['r'] or t['f']
                if name in prog.bodies:
                    continue
                tot = models.totality(name)
                if tot in ('panicky', 'diverges'):
                    out.append((fn, bi, tot, name, t['sp']))
    return out


def site_keys(sites):
    """stable keys: fn + kind + what + ordinal among equal (fn, kind, what) in block order"""
    keys, cnt = {}, {}
    for fn, bi, kind, what, sp in sites:
        k = (fn, kind, what)
        cnt[k] = cnt.get(k, 0) + 1
        keys[(fn, bi)] = 'panic-site:%s:%s:%s#%d' % (fn, kind, what.split('::')[-1], cnt[k])
    return keys


def progress_blocks(prog, fn, cfg, scc):
    """blocks of the SCC whose terminator consumes from a finite iterator that is not re-created inside the SCC"""
    mir = prog.bodies[fn]['mir']
    assigned_in_scc = cfg.modified_locals(scc)
    # locals assigned in the SCC by anything other than being mutably borrowed for the progress call itself
    hard_assigned = set()
    for bi in scc:
        b = mir['blocks'][bi]
        for s in b['stmts']:
            if s['k'] == 'assign' and not any(e == '*' for e in s['lhs']['p']) and s['rv']['k'] not in ('ref', 'rawptr'):
                hard_assigned.add(s['lhs']['l'])
        t = b['term']
        if t['k'] == 'call' and not any(e == '*' for e in t['dest']['p']):
            hard_assigned.add(t['dest']['l'])
    out = set()
    for bi in scc:
        t = mir['blocks'][bi]['term']
        if t['k'] != 'call' or not t['args']:
            continue
        name = t['r'] or t['f']
        root = iterator_root(mir, t['args'][0])
        if root is None:
            continue
        if re.search(r'iter::Peekable::<I>::next_if(_eq)?$', name) and (root not in hard_assigned or root <= mir['argc']):
            # conditional consumption: progress for the cycle only if the cycle is left when nothing was taken (the None edge of the test that
            # follows the call leads out of the cycle)
            d = t['dest']['l']
            nb = mir['blocks'][t['t']] if t.get('t') is not None and t['t'] >= 0 else None
            if nb is not None and nb['term']['k'] == 'switch' and any(s_['k'] == 'assign' and s_['rv']['k'] == 'discr' and s_['rv']['p']['l'] == d for s_ in nb['stmts']):
                tm = dict((int(x), b_) for x, b_ in nb['term']['t'])
                none_t = tm.get(0, nb['term']['else'])
                if none_t not in scc:
                    out.add(bi)
            continue
        if name in prog.bodies and not must_progress(prog, name) and (root not in hard_assigned or root <= mir['argc']):
            # a repository helper / closure that consumes conditionally (`while let Some(x) = next_subtag_if(iter, parse)`, the closure of a
            # `from_fn`): progress for the cycle if the cycle is left on None and the callee returns Some only after taking an element
            d = t['dest']['l']
            nb = mir['blocks'][t['t']] if t.get('t') is not None and t['t'] >= 0 else None
            if nb is not None and nb['term']['k'] == 'switch' and any(s_['k'] == 'assign' and s_['rv']['k'] == 'discr' and s_['rv']['p']['l'] == d for s_ in nb['stmts']):
                tm = dict((int(x), b_) for x, b_ in nb['term']['t'])
                none_t = tm.get(0, nb['term']['else'])
                if none_t not in scc and some_implies_progress(prog, name):
                    out.add(bi)
                    continue
        if PROGRESS_RE.search(name):
            aty = ((t['args'][0].get('move') or t['args'][0].get('copy') or {}).get('ty') or '') + ' ' + name + ' ' + t.get('ga', '')
            if INFINITE_RE.search(aty):
                continue        # an iterator that never ends (repeat / cycle / from_fn / successors / open range): `next` is no progress towards termination
            if root not in hard_assigned or root <= mir['argc']:
                out.add(bi)
        elif name in prog.bodies and must_progress(prog, name):
            if root not in hard_assigned or root <= mir['argc']:
                out.add(bi)
    return out


def iterator_root(mir, arg):
    """local that holds (or points to) the iterator object passed as `&mut it` / `&mut *it`"""
    pl = arg.get('move') or arg.get('copy')
    if not pl:
        return None
    l = pl['l']
    seen = set()
    # follow single-assignment reborrow temporaries back to the named local / parameter
    for _ in range(10):
        if l in seen:
            break
        seen.add(l)
        defs = []
        for b in mir['blocks']:
            for s in b['stmts']:
                if s['k'] == 'assign' and s['lhs']['l'] == l and not s['lhs']['p']:
                    defs.append(s['rv'])
        if len(defs) == 1 and defs[0]['k'] in ('ref', 'rawptr'):
            l = defs[0]['p']['l']
            continue
        if len(defs) == 1 and defs[0]['k'] == 'use' and ('move' in defs[0]['o'] or 'copy' in defs[0]['o']):
            l = (defs[0]['o'].get('move') or defs[0]['o'].get('copy'))['l']
            continue
        break
    return l


_sip = {}


def some_implies_progress(prog, fn):
    """does `fn` (loop-free, returning an Option) return Some only on paths that took an element from an iterator it received (parameter or
    captured reference)?  Decided on the explored paths of the callee, helpers inlined."""
    if fn in _sip:
        return _sip[fn]
    _sip[fn] = False
    try:
        if prog.has_loops(fn) or 'option::Option<' not in str((prog.bodies[fn].get('sig') or {}).get('output', '') or prog.bodies[fn]['mir']['locals'][0]):
            return False
        e = pxm.PX(prog)
        segs = e.explore(fn)
    except Exception:
        return False
    ok = bool(segs)
    for sg in segs:
        if sg.kind == 'panic':
            continue
        if sg.kind != 'return':
            ok = False
            break
        r = sg.ret
        if r is not None and r[0] == 'adt' and r[2] == 'None' and 'option::Option' in r[1]:
            continue
        took = [ev for ev in sg.events if ev[0] == 'next' and "'param'" in repr(ev[1])]
        if not took:
            ok = False
            break
    _sip[fn] = ok
    return ok


_mp = {}


def must_progress(prog, fn):
    """every entry->return path of `fn` passes a progress call on its first parameter"""
    if fn in _mp:
        return _mp[fn]
    _mp[fn] = False
    mir = prog.bodies[fn]['mir']
    cfg = prog.cfg(fn)
    prog_blocks = set()
    for bi in cfg.reach:
        t = mir['blocks'][bi]['term']
        if t['k'] == 'call' and t['args']:
            name = t['r'] or t['f']
            root = iterator_root(mir, t['args'][0])
            if root == 1 and (PROGRESS_RE.search(name) or (name in prog.bodies and name != fn and must_progress(prog, name))):
                prog_blocks.add(bi)
    # is there a path entry -> return avoiding prog_blocks?
    st, seen = [0], set()
    ok = True
    while st:
        x = st.pop()
        if x in seen or x in prog_blocks:
            continue
        seen.add(x)
        if mir['blocks'][x]['term']['k'] == 'return':
            ok = False
            break
        st.extend(cfg.succ[x])
    _mp[fn] = ok
    return ok


def check_config(cfgname, rep, tier):
    prog = common.program(cfgname)
    cg = callgraph.CallGraph(prog)
    eps, likely = entry_points(prog, cg)
    roots = eps + likely
    reach = cg.reachable(roots)
    reach = {f for f in reach if f.startswith(IMPL_CRATES)}
    rep.count('%s entry points (text-accepting / likely-subtags+direction)' % cfgname, '%d / %d' % (len(eps), len(likely)))
    rep.count('%s reachable repository bodies' % cfgname, len(reach))

    # ---- D2b no recursion
    sccs = cg.recursive_sccs(reach)
    rep.ob('%s:no-recursion' % cfgname, 'D2b-RECURSION', '-', '-', 'call graph of the %d reachable bodies is acyclic (bounded stack)' % len(reach), not sccs,
           detail='recursive cycles: %s' % sccs[:3], how='Tarjan SCC over resolved callees and closure uses')

    # ---- external callees classified (SUM totality column)
    unknown = {}
    nsites = 0
    for f in reach:
        for name, sp, bi, t in cg.ext[f]:
            nsites += 1
            if models.totality(name) == 'unknown':
                unknown.setdefault(name, []).append((f, sp))
    rep.count('%s external call sites classified' % cfgname, nsites)
    for name, where in sorted(unknown.items()):
        rep.ob('%s:extern:%s' % (cfgname, name), 'SUM-TOTALITY', where[0][0], where[0][1], 'external callee %s has a totality summary' % name, False,
               detail='UNCLASSIFIED-EXTERNAL: %s called from %s; add a summary to sa/models.py after reading its source' % (name, ', '.join(w[0] for w in where[:3])))

    # ---- D1 panic-freedom
    sites = panic_sites(prog, reach)
    keys = site_keys(sites)
    feasible = {}     # (fn, bi) -> list of (root, segment)
    explored = set()
    loopy = sorted(f for f in reach if prog.has_loops(f))
    pending = list(dict.fromkeys(roots + loopy))
    visited = set()
    limit_errors = []
    nseg = 0
    e = pxm.PX(prog)
    while pending:
        r = pending.pop(0)
        if r in explored:
            continue
        explored.add(r)
        e2 = pxm.PX(prog)
        try:
            segs = e2.explore(r)
        except pxm.Limit as ex:
            limit_errors.append((r, str(ex)))
            continue
        visited |= e2.visited_fns
        nseg += len(segs)
        for s in segs:
            if s.kind != 'panic':
                continue
            pev = [ev for ev in s.events if ev[0] == 'panic']
            if not pev:
                # panic inside an inlined callee recorded before the segment start
                pev = [ev for ev in s.state.events if ev[0] == 'panic']
            ev = pev[-1]
            feasible.setdefault((ev[4], ev[5]), []).append((r, s, ev, e2))
        if not pending:
            # bodies reachable but never entered (closures handed to unmodelled combinators ...): explore standalone
            rest = sorted(f for f in reach if f not in visited and f not in explored)
            pending.extend(rest)
    rep.count('%s roots explored / path segments' % cfgname, '%d / %d' % (len(explored), nseg))
    for r, msg in limit_errors:
        rep.ob('%s:explore:%s' % (cfgname, r), 'D1-EXPLORE', r, prog.bodies[r]['span'], 'body explored within budget', False, 'INCONCLUSIVE(%s)' % msg)
    for fn, bi, kind, what, sp in sites:
        k = keys[(fn, bi)]
        hits = feasible.pop((fn, bi), [])
        detail = ''
        witness = None
        if hits:
            r, s, ev, e2 = hits[0]
            chain = cg.path([r], fn) or [r, fn]
            shapes = ['%s: %s' % (e2.fmt(sj), shp.describe()[:160]) for sj, shp in s.state.shapes.items() if sj[0] != 'B1']
            exs = [shp.example() for sj, shp in s.state.shapes.items() if sj[0] != 'B1' and shp.example() is not None]
            witness = repr(exs[-1]) if exs else None
            detail = 'panic site %s (%s) is reachable\n  entry point: %s\n  call chain: %s\n  abstract state at the site: %s' % (
                sp, what, r, ' -> '.join(chain), '; '.join(shapes) or 'no constraint on the input (every input class reaches it)')
        rep.ob(k, 'D1-PANIC', fn, sp, 'panic-capable site (%s %s) is unreachable from every entry point' % (kind, what.split('::')[-1]),
               not hits, detail=detail, how='no feasible path in %d explorations (shape / search-index / table-data discharge)' % len(explored), witness=witness)
    for (fn, bi), hits in feasible.items():
        r, s, ev, e2 = hits[0]
        rep.ob('%s:panic-event:%s:%s' % (cfgname, fn, ev[1]), 'D1-PANIC', fn, ev[3], 'no panic event', False, detail='panic event %s reachable from %s' % (ev[1:4], r))

    # ---- D2a termination (nested loops: a sub-cycle left after removing the outer progress calls is checked in its own scope)
    nloops = 0
    for f in sorted(reach):
        cfg = prog.cfg(f)
        top = cfg.sccs()
        ordinal = 0
        work = [(c, 0) for c in sorted(top, key=min)]
        while work:
            comp, depth = work.pop(0)
            nloops += 1
            pb = progress_blocks(prog, f, cfg, comp)
            rest = cfg.sccs(nodes=sorted(comp), removed=pb)
            stuck = [r for r in rest if not pb or r == comp]
            hdr = min(comp)
            rep.ob('loop:%s#%d' % (f, ordinal),
                   'D2a-PROGRESS', f, prog.bodies[f]['mir']['blocks'][hdr]['term'].get('sp', prog.bodies[f]['span']),
                   'every cycle of the loop consumes from a finite iterator created outside the loop', not stuck,
                   detail='cycle without a progress call: blocks %s' % (sorted(stuck[0]) if stuck else ''),
                   how='%d progress blocks in a %d-block cycle (nesting depth %d)' % (len(pb), len(comp), depth))
            ordinal += 1
            if not stuck:
                work.extend((r, depth + 1) for r in sorted(rest, key=min))
    # ---- Display impls never construct fmt::Error (so ToString::to_string cannot panic)
    nfmt = 0
    for f in sorted(prog.bodies):
        b = prog.bodies[f]
        if not f.startswith(IMPL_CRATES) or not b.get('impl') or not b['impl']['trait_def'].endswith('fmt::Display') or not f.endswith('::fmt'):
            continue
        nfmt += 1
        e3 = pxm.PX(prog)
        bad = []
        try:
            for s in e3.explore(f):
                if s.kind == 'return' and s.ret and s.ret[0] == 'adt' and s.ret[2] == 'Err':
                    if "'neg'" not in repr(s.ret) and "'residual'" not in repr(s.ret):
                        bad.append(e3.short(s.ret))
        except pxm.Limit as ex:
            bad.append('INCONCLUSIVE(%s)' % ex)
        rep.ob('fmt-error:%s' % f, 'D1-FMT-ERROR', f, b['span'], 'Display::fmt only propagates formatter errors, never constructs one', not bad,
               detail='constructed error returned: %s' % bad[:2])
    return dict(eps=eps, likely=likely, reach=reach, sites=sites, loops=nloops, fmt=nfmt, explored=explored)


def run(tier, replay=None):
    rep = common.new_report('C01', tier, 'proof')
    r0 = check_config('K0', rep, tier)
    r1 = check_config('K1', rep, tier)
    r2 = check_config('K2', rep, tier)       # feature serde: the Deserialize visitor receives arbitrary text
    rep.floor('serde entry points (K2)', len([x for x in r2['eps'] if '::serde::' in x or 'serde' in x.lower()]), 3)
    rep.floor('text-accepting entry points (K0)', len(r0['eps']), 40)
    rep.floor('likely-subtags / direction entry points (K1)', len(r1['likely']), 3)
    rep.floor('panic-capable sites (K1)', len(r1['sites']), 6)    # 18 today (DESIGN B.1); only the six table indexings of maximize are structural - a refactor may remove the others
    rep.floor('loops (K0)', r0['loops'], 5)     # the five token-stream parsers; Display loops may legitimately become iterator adaptors
    rep.extra['entry_points'] = {'K0': r0['eps'] + r0['likely'], 'K1_extra': sorted(set(r1['eps'] + r1['likely']) - set(r0['eps'] + r0['likely']))}
    rep.explanation = ('Every panic-capable site (assert terminators, panicking std calls, unwrap/expect, explicit panics) reachable in the resolved '
                       'call graph from a derived entry point is an obligation, discharged only if no abstract path reaches it (byte-string shapes for '
                       'bounds, index-from-binary-search, table data for the unwrap); every loop must consume from a finite iterator; no recursion.')
    rep.assumptions = ['std / tinystr functions classified total in sa/models.py do not panic or hang; allocation failure is out of scope',
                       "caller-supplied AsRef / Iterator implementations are total and finite (they are the caller's code)"]
    return rep.finish()
