"""C09 — parsing ignores case, separator choice and the order of unordered parts (DESIGN §4.9)."""
from .. import terms, shape as sh
from . import common, validators, entry, parserules, c03, mutators as mu, c10

LI, LO = 'unic_langid_impl', 'unic_locale_impl'


def case_closed_specs(rep):
    """the specification productions themselves are closed under swapping letter case (so exactness of a validator implies case-insensitivity)"""
    roles = validators.load_roles()
    bad = []
    for name, r in roles.items():
        for n, lst in r.accept.cells.items():
            if n == sh.LONG:
                continue
            for c in lst:
                for m in c:
                    up, lo = m & sh.UPPER, m & sh.LOWER
                    if (up << 32) != lo:
                        bad.append(name)
    rep.ob('case:spec-closed', 'SHAPE-CASE', '-', '-', 'every production is closed under changing letter case', not bad, detail=str(sorted(set(bad))))


def ordered_maps(prog, rep):
    facts = prog.facts
    n = 0
    for ty in ('UnicodeExtensionList', 'TransformExtensionList'):
        full, adt = terms.find_adt(facts, ty)
        fs = adt['variants'][0]['fields'] if adt else []
        maps = [f for f in fs if 'Map<' in f['ty'] or 'HashMap' in f['ty']]
        ok = bool(maps) and all(terms.norm_ty(f['ty']).startswith('std::collections::BTreeMap<') for f in maps)
        n += len(maps)
        rep.ob('maps:%s' % ty, 'ITEM-BTREEMAP', full or ty, (adt or {}).get('span', '-'), '%s keeps its keyed entries in a BTreeMap (iteration order is key order, independent of insertion order)' % ty, ok,
               detail='map fields: %s' % [(f['name'], f['ty']) for f in maps])
    rep.floor('map fields', n, 2)


def run(tier, replay=None):
    rep = common.new_report('C09', tier, 'other')
    prog = common.program('K0')
    rep.count('configuration', 'K0 (%d bodies)' % len(prog.bodies))
    # case
    case_closed_specs(rep)
    results, found = validators.run_all(prog, rep)
    rep.floor('validators', len(results), 4)
    c03.extension_type_bytes(prog, rep)
    # separators
    core = entry.core_parser(prog)
    disp = entry.find_method(prog, LO, 'ExtensionsMap', 'try_from_iter')
    nsep = entry.check_separators(prog, rep, [('LanguageIdentifier::from_bytes', f, core) for f in entry.find_method(prog, LI, 'LanguageIdentifier', 'from_bytes')] +
                                  [('parse_locale', f, set(core) | set(disp)) for f in entry.find_fn(prog, LO, 'parse_locale')] +
                                  [('ExtensionsMap::from_bytes', f, set(disp)) for f in entry.find_method(prog, LO, 'ExtensionsMap', 'from_bytes')])
    rep.floor('split predicates analysed', nsep, 3)
    # unordered groups
    ordered_maps(prog, rep)
    allinv = mu.invariant_fields(prog.facts)
    n = 0
    for fn, ty in mu.constructors(prog):
        n += mu.check_constructor(prog, fn, ty, allinv, rep, c10.EXEMPT_CTORS)
    rep.floor('constructors analysed', n, 5)
    # parser tables: the state after a key / variant / attribute does not depend on its value; u and t in either order (single dispatcher state)
    for which in ('core', 'dispatch', 'unicode', 'transform', 'private'):
        parserules.check(prog, rep, which)
    # "no other code looks at separators / case": every string entry point is split(whole input) -> core parser (-> extension parser) and nothing else
    from . import c13, c02, c04
    c13.wiring(prog, rep)
    c02.fromstr_delegation(prog, rep, LI, 'LanguageIdentifier')
    c02.fromstr_delegation(prog, rep, LO, 'Locale')
    c04.canonicalize_shape(prog, rep)
    # "parse to equal values with identical to_string()": equality is the derived structural one and the printers are functions of the fields only
    from . import c12, emitrules
    c12.derived_impls(prog, rep)
    emitrules.check_display(prog, rep)
    rep.explanation = ('The metamorphic relation is not executed on pairs. Decided: (case) every validator accepts exactly a case-closed production and stores a fixed case transform of the input; literal '
                       'comparisons ("und", "true") are made on the folded text; from_byte maps u/U, t/T, x/X alike; (separators) one byte set {-,_} in all three split predicates and no other code sees '
                       'separators; (unordered parts) variants and attributes are sorted and de-duplicated before they are stored, keywords and tfields live in BTreeMaps, the parser tables have a single '
                       'state per part kind, so what follows a key/variant/attribute does not depend on its value or position; -u- and -t- are dispatched from one state into separate slots, a repeated '
                       'one is rejected either way round.')
    rep.assumptions = ['inputs with duplicate keyword / tfield keys are outside the property', 'sort_unstable + dedup yield the same list for any permutation with repetitions (std)']
    return rep.finish()
