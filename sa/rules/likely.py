"""CASC — the likely-subtags lookup cascades read as decision lists (DESIGN §3.11): maximize (C06, C07), minimize (C08),
the write sets of the LanguageIdentifier methods (C07, C08).

`likelysubtags::maximize` is explored path by path with its merge helper inlined.  A path is
   presence pattern of (language, script, region)  x  an ordered list of table searches (miss ... miss [hit])  ->  result
and is compared with the cascade the property states.  For every search the checker verifies which static is searched,
which integer forms make up the key (which parameter, which byte order, which width, in which column order), that the
key-extractor closure projects exactly the key columns of the row type in the same order, that the row indexed on a hit is the
row found in the same static, and where each component of the result comes from (row value decoded / given subtag)."""
import re
from .. import px as pxm, terms, tab
from . import tables as tabrules

COMP = ('lang', 'script', 'region')
SPEC = {
    # presence (l, s, r) -> ordered table roles searched until the first hit
    (1, 1, 1): [],
    (1, 0, 1): ['LANG_REGION', 'LANG_ONLY'],
    (1, 1, 0): ['LANG_SCRIPT', 'LANG_ONLY'],
    (1, 0, 0): ['LANG_ONLY'],
    (0, 1, 1): ['SCRIPT_REGION', 'SCRIPT_ONLY'],
    (0, 1, 0): ['SCRIPT_ONLY'],
    (0, 0, 1): ['REGION_ONLY'],
    (0, 0, 0): [],
}


def find_likely_fn(prog, which):
    """the two free functions of the likelysubtags module: (Language, Option<Script>, Option<Region>) -> Option<(..)>;
    `maximize` is the one that searches statics, `minimize` the one that calls it."""
    cands = []
    for n, b in prog.bodies.items():
        s = b.get('sig')
        if n.startswith('unic_langid_impl::') and b['kind'] == 'Fn' and s and len(s['inputs']) == 3 and not s['unsafe'] \
                and s['inputs'][0].endswith('Language') and 'Script' in s['inputs'][1] and 'Region' in s['inputs'][2] \
                and s['output'].startswith('std::option::Option<('):
            cands.append(n)
    # maximize searches the tables (directly, in its closures or through private helpers) and calls no other candidate; minimize calls maximize
    from .. import callgraph
    cg = callgraph.CallGraph(prog)

    def reach(n):
        return cg.reachable([n])

    def searches(n):
        for f in reach(n):
            b = prog.bodies.get(f)
            if b and any(t['k'] == 'call' and 'binary_search' in (t['r'] or t['f'] or '') for t in (bl['term'] for bl in b['mir']['blocks'])):
                return True
        return False
    callers = [n for n in cands if any(m != n and m in reach(n) for m in cands)]
    searchers = [n for n in cands if n not in callers and searches(n)]
    if which == 'maximize':
        return searchers
    return [n for n in cands if n not in searchers]


def param_roles(body):
    roles = {}
    for i, t in enumerate(body['sig']['inputs']):
        if t.endswith('Language'):
            roles[i + 1] = 'lang'
        elif 'Script' in t:
            roles[i + 1] = 'script'
        elif 'Region' in t:
            roles[i + 1] = 'region'
    return roles


def presence_of(e, facts_items, proles):
    """presence pattern from the tag facts about the parameters; -> dict role -> 0/1 (missing = undecided)"""
    pres = {}
    for k, v in facts_items:
        if k[0] != 'tag':
            continue
        ap = terms.access_path(k[1])
        if ap is None or ap[0] not in proles:
            continue
        role = proles[ap[0]]
        path = terms.strip_some(ap[1])
        if (role == 'lang' and path == (0,)) or (role != 'lang' and path == ()):
            pres[role] = 1 if v == 'pos' else 0
    return pres


def is_search(t):
    return isinstance(t, tuple) and t and t[0] == 'call' and re.search(r'::binary_search(_by|_by_key)?$', t[1]) is not None


def encoded_param(t, depth=0):
    """integer form of a subtag parameter: from_<order>_bytes(all_bytes(<text of param k>)) -> (k, order, int type) or None"""
    fb = terms.find_terms(t, lambda v: v[0] == 'pure' and re.search(r'::from_(le|be|ne)_bytes$', v[1]))
    if len(fb) != 1:
        return None
    m = re.search(r'<impl (u\d+)>::from_(le|be|ne)_bytes$', fb[0][1])
    ab = terms.find_terms(fb[0], lambda v: v[0] == 'pure' and v[1].endswith('::all_bytes'))
    if not m or len(ab) != 1:
        return None
    ap = terms.access_path(ab[0][2][0])
    if ap is None:
        return None
    # nothing but wrappers around the conversion
    x = t
    for _ in range(6):
        if x[0] in ('cref', 'ref', 'pos'):
            x = x[1]
        elif x[0] == 'adt' and x[2] == 'Some' and len(x[3]) == 1:
            x = x[3][0]
        else:
            break
    if x is not fb[0] and x != fb[0]:
        return None
    return ap[0], {'le': 'little', 'be': 'big', 'ne': 'native'}[m.group(2)], m.group(1), terms.strip_some(ap[1])


def key_columns(snapkey):
    if snapkey[0] == 'tuple':
        return list(snapkey[1])
    return [snapkey]


def closure_projection(prog, clos):
    """which fields of the row the key-extractor closure returns, in order; None if not understood"""
    if clos[0] != 'closure' or clos[1] not in prog.bodies:
        return None
    e = pxm.PX(prog)
    segs = e.explore(clos[1])
    if len(segs) != 1 or segs[0].kind != 'return':
        return None
    r = segs[0].ret
    comps = list(r[1]) if r[0] == 'tuple' else [r]
    out = []
    for c in comps:
        ap = terms.access_path(c)
        if ap is None or ap[0] != 2 or len(ap[1]) != 1 or not isinstance(ap[1][0], int):
            return None
        out.append(ap[1][0])
    return out


def decoded_component(t):
    """result component built from a table value: <Role>(from_bytes_unchecked(to_<order>_bytes(pos(<row>.<vcol>.<c>))))
    -> (role adt name, order, static, index term, (vcol, c)) or None"""
    x = t
    if x[0] == 'adt' and x[2] == 'Some' and len(x[3]) == 1:
        x = x[3][0]
    if x[0] != 'adt' or len(x[3]) != 1:
        return None
    rolename = x[2]
    inner = x[3][0]
    if inner[0] == 'adt' and inner[2] == 'Some' and len(inner[3]) == 1:
        inner = inner[3][0]
    if not (inner[0] == 'pure' and inner[1].endswith('::from_bytes_unchecked') and len(inner[2]) == 1):
        return None
    tb = inner[2][0]
    m = re.search(r'::to_(le|be|ne)_bytes$', tb[1]) if tb[0] == 'pure' else None
    if not m or len(tb[2]) != 1:
        return None
    src = tb[2][0]
    if src[0] != 'pos':
        return None
    f = src[1]
    path = []
    while f[0] == 'fld' and isinstance(f[2], int):
        path.append(f[2])
        f = f[1]
    if f[0] != 'elem' or not (f[1][0] == 'unk' and f[1][1][0] == 'ST'):
        return None
    return rolename, {'le': 'little', 'be': 'big', 'ne': 'native'}[m.group(1)], f[1][1][1], f[2], tuple(reversed(path))


def given_component(t, proles):
    """result component that is the caller's own subtag: -> role or None"""
    x = t
    if x[0] == 'adt' and x[2] == 'Some' and len(x[3]) == 1:
        x = x[3][0]
    ap = terms.access_path(x)
    if ap is None or ap[0] not in proles:
        return None
    if terms.strip_some(ap[1]) != ():
        return None
    return proles[ap[0]]


def check_maximize(prog, rep, ct, order):
    """C06/C07: the lookup cascade of likelysubtags::maximize equals the specified decision list"""
    fns = find_likely_fn(prog, 'maximize')
    rep.floor('likelysubtags::maximize bodies', len(fns), 1)
    out = {'paths': 0, 'lookups': 0}
    for fn in fns:
        b = prog.bodies[fn]
        proles = param_roles(b)
        e = pxm.PX(prog)
        try:
            segs = e.explore(fn)
        except pxm.Limit as ex:
            rep.ob('casc:maximize:explore', 'CASC-EXPLORE', fn, b['span'], 'maximize explored', False, 'INCONCLUSIVE(%s)' % ex)
            continue
        static_role = {t['name']: r for r, t in ct.roles.items()}
        bad_order, bad_key, bad_res, bad_early, bad_misc = [], [], [], [], []
        seen_patterns = {}
        lookups_checked = set()
        for s in segs:
            if s.kind != 'return':
                bad_misc.append('path ends in %s' % s.kind)
                continue
            out['paths'] += 1
            items = list(s.state.facts.items())
            pres = presence_of(e, items, proles)
            foreign = [e.short(k, 120) for k, v in items if not (k[0] == 'tag' and (is_search(pxm.PX.tag_core(e, k[1])) or terms.access_path(k[1]) is not None))]
            if foreign:
                bad_misc.append('result depends on a condition outside the specification: %s' % foreign[0])
                continue
            searches = [(k[1], v) for k, v in items if k[0] == 'tag' and is_search(e.tag_core(k[1]))]
            # spec patterns compatible with the (possibly partial) presence facts of this path
            pats = [p for p in SPEC if all(pres.get(r, p[i]) == p[i] for i, r in enumerate(COMP))]
            roles_seq = []
            ok_path = True
            for call, v in searches:
                call = e.tag_core(call)
                st_arg = call[2][0]
                sname = st_arg[1][1] if st_arg[0] == 'ref' and st_arg[1][0] == 'ST' else None
                role = static_role.get(sname)
                if role is None:
                    bad_key.append('search in %s, which is not one of the six likely-subtags tables' % (sname or e.short(st_arg)))
                    ok_path = False
                    break
                roles_seq.append((role, v, call))
                lk = (role,)
                if lk not in lookups_checked:
                    lookups_checked.add(lk)
                    out['lookups'] += 1
                    check_lookup(prog, e, rep, fn, b, call, role, proles, order, ct)
            if not ok_path:
                continue
            hit = roles_seq and roles_seq[-1][1] == 'pos'
            if any(v == 'pos' for _, v, _ in roles_seq[:-1]):
                bad_order.append('a search hit is not returned immediately (%s)' % [(r, v) for r, v, _ in roles_seq])
            seq = [r for r, _, _ in roles_seq]
            for p in pats:
                want = SPEC[p]
                label = 'language %s, script %s, region %s' % tuple('present' if x else 'absent' for x in p)
                seen_patterns[p] = seen_patterns.get(p, 0) + 1
                if hit:
                    if seq != want[:len(seq)]:
                        bad_order.append('%s: searches %s, the property requires %s' % (label, seq, want))
                else:
                    if seq != want:
                        bad_order.append('%s: gives up after searching %s, the property requires %s before reporting "unchanged"' % (label, seq, want))
            # result
            r = s.ret
            if r is None or r[0] != 'adt' or r[2] not in ('Some', 'None'):
                bad_res.append('result not understood: %s' % e.short(r, 200))
                continue
            if r[2] == 'None':
                if hit:
                    bad_res.append('a table hit in %s is discarded ("unchanged" returned)' % roles_seq[-1][0])
                continue
            if not hit:
                bad_early.append('returns a value without a table hit (presence %s): %s' % (pres, e.short(r, 160)))
                continue
            role, _, call = roles_seq[-1]
            tup = r[3][0]
            if tup[0] != 'tuple' or len(tup[1]) != 3:
                bad_res.append('result is not a (language, script, region) triple: %s' % e.short(r, 200))
                continue
            keykinds = tabrules.ROLE_KEYS[role]
            vcol = len(keykinds)
            for ci, comp in enumerate(tup[1]):
                cname = COMP[ci]
                g = given_component(comp, proles)
                if g is not None:
                    if g != cname:
                        bad_res.append('%s hit: the %s of the result is the caller\'s %s' % (role, cname, g))
                    elif pres.get(g) != 1:
                        bad_res.append('%s hit: the %s of the result is the caller\'s value on a path where it may be absent' % (role, cname))
                    continue
                d = decoded_component(comp)
                if d is None:
                    bad_res.append('%s hit: %s of the result not understood: %s' % (role, cname, e.short(comp, 200)))
                    continue
                rolename, dorder, sname, idx, path = d
                want_adt = {'lang': 'Language', 'script': 'Script', 'region': 'Region'}[cname]
                if rolename != want_adt or path != (vcol, ci):
                    bad_res.append('%s hit: %s of the result is decoded from column %s as %s' % (role, cname, path, rolename))
                if static_role.get(sname) != role or not (idx[0] == 'pos' and e.tag_core(idx[1]) == call):
                    bad_res.append('%s hit: %s of the result is read from %s at an index that is not the row found' % (role, cname, sname.split('::')[-1]))
                if dorder != order:
                    bad_res.append('%s hit: %s decoded with %s byte order, tables are %s' % (role, cname, dorder, order))
                if pres.get(cname) != 0 and cname not in keykinds:
                    bad_res.append('%s hit: the caller\'s %s is replaced by the table value (a given subtag must be kept)' % (role, cname))
        missing = [p for p in SPEC if p not in seen_patterns]
        if missing:
            bad_misc.append('no path for presence pattern(s) %s' % missing)
        if e.unmodelled:
            bad_misc.append('INCONCLUSIVE(unmodelled callee %s)' % list(e.unmodelled)[0])
        site = b['span']
        rep.ob('casc:maximize:order', 'CASC-ORDER', fn, site, 'maximize consults the tables in the order of specificity the property states, for each of the 8 presence patterns',
               not bad_order and not bad_misc, detail='\n'.join(sorted(set(bad_order + bad_misc))[:8]), how='%d paths, %d presence patterns' % (len(segs), len(seen_patterns)))
        rep.ob('casc:maximize:unchanged', 'CASC-UNCHANGED', fn, site,
               'maximize reports "unchanged" exactly when all three subtags are present or every applicable table misses', not bad_early and not [x for x in bad_res if 'discarded' in x],
               detail='\n'.join(sorted(set(bad_early + [x for x in bad_res if 'discarded' in x]))[:6]))
        rep.ob('casc:maximize:result', 'CASC-RESULT', fn, site,
               'on a hit the result is the found row\'s value, with every given subtag kept', not [x for x in bad_res if 'discarded' not in x] and not bad_key,
               detail='\n'.join(sorted(set([x for x in bad_res if 'discarded' not in x] + bad_key))[:8]), how='component origins checked on every hit path')
        rep.floor('table lookups in maximize', out['lookups'], 6)
    return out


def comparator_info(prog, call):
    """binary_search_by(|probe| probe_key.cmp(&target)): -> (projected row fields, target key components) or None"""
    snap = call[4] if len(call) > 4 else None
    if not snap or len(snap) < 2:
        return None
    clos = snap[1]
    if clos[0] != 'closure' or clos[1] not in prog.bodies:
        return None
    e2 = pxm.PX(prog)
    try:
        segs = e2.explore(clos[1], args=[('cref', clos), ('param', 2)])
    except Exception:
        return None
    if len(segs) != 1 or segs[0].kind != 'return':
        return None
    r = segs[0].ret
    if not (r[0] in ('pure', 'call') and r[1].split('::')[-1] == 'cmp' and len(r[2]) == 2):
        return None

    def comps(x):
        for _ in range(4):
            if x[0] in ('ref', 'cref') and isinstance(x[1], tuple) and x[1] and isinstance(x[1][0], str):
                if x[0] == 'ref':
                    try:
                        x = e2.deref_value(segs[0].state, x)
                    except Exception:
                        break
                else:
                    x = x[1]
            else:
                break
        return list(x[1]) if x[0] == 'tuple' else [x]
    probe, target = comps(r[2][0]), comps(r[2][1])
    proj = []
    for c in probe:
        ap = terms.access_path(c)
        if ap is None or ap[0] != 2 or len(terms.strip_some(ap[1])) != 1:
            return None       # the first operand of cmp must be built from the probed row (probe.cmp(target), not the reverse)
        proj.append(terms.strip_some(ap[1])[0])
    return proj, target


def check_lookup(prog, e, rep, fn, b, call, role, proles, order, ct):
    """one binary search: key built from the right parameters (order, width, column order), extractor projects the key columns"""
    keykinds = tabrules.ROLE_KEYS[role]
    snap = call[4] if len(call) > 4 else None
    bad = []
    if call[1].endswith('::binary_search_by'):
        ci = comparator_info(prog, call)
        if ci is None:
            bad.append('INCONCLUSIVE(comparator of binary_search_by not understood)')
        else:
            proj, cols = ci
            if len(cols) != len(keykinds):
                bad.append('key has %d components, table %s is keyed by %s' % (len(cols), role, keykinds))
            else:
                for i, (c, kind) in enumerate(zip(cols, keykinds)):
                    ep = encoded_param(c)
                    if ep is None:
                        bad.append('key component %d not understood: %s' % (i, e.short(c, 160)))
                        continue
                    k, o, ity, path = ep
                    if proles.get(k) != kind:
                        bad.append('key component %d is the integer form of the %s, the table column holds the %s' % (i, proles.get(k), kind))
                    if o != order:
                        bad.append('key component %d packed with %s byte order, tables are %s' % (i, o, order))
                    if ity != ('u64' if kind == 'lang' else 'u32'):
                        bad.append('key component %d has width %s' % (i, ity))
            if proj != list(range(len(keykinds))):
                bad.append('comparator projects row fields %s, the key columns are %s' % (proj, list(range(len(keykinds)))))
    elif not call[1].endswith('::binary_search_by_key'):
        bad.append('INCONCLUSIVE(search with %s: comparator not modelled)' % call[1].split('::')[-1])
    elif snap is None or len(snap) < 3:
        bad.append('search arguments not captured')
    else:
        cols = key_columns(snap[1] if snap[1][0] != 'cref' else snap[1][1]) if snap[1][0] in ('tuple', 'cref') else [snap[1]]
        if snap[1][0] == 'cref' and snap[1][1][0] == 'tuple':
            cols = list(snap[1][1][1])
        elif snap[1][0] == 'cref':
            cols = [snap[1][1]]
        if len(cols) != len(keykinds):
            bad.append('key has %d components, table %s is keyed by %s' % (len(cols), role, keykinds))
        else:
            for i, (c, kind) in enumerate(zip(cols, keykinds)):
                ep = encoded_param(c)
                if ep is None:
                    bad.append('key component %d not understood: %s' % (i, e.short(c, 160)))
                    continue
                k, o, ity, path = ep
                if proles.get(k) != kind:
                    bad.append('key component %d is the integer form of the %s, the table column holds the %s' % (i, proles.get(k), kind))
                if o != order:
                    bad.append('key component %d packed with %s byte order, tables are %s' % (i, o, order))
                if ity != ('u64' if kind == 'lang' else 'u32'):
                    bad.append('key component %d has width %s' % (i, ity))
        proj = closure_projection(prog, snap[2])
        if proj != list(range(len(keykinds))):
            bad.append('key extractor projects row fields %s, the key columns are %s' % (proj, list(range(len(keykinds)))))
    rep.ob('casc:lookup:%s' % role, 'CASC-LOOKUP', fn, b['span'],
           '%s is searched with the integer forms of the caller\'s %s, in column order, under the order the table is sorted in' % (role, ' and '.join(keykinds)),
           not bad, detail='\n'.join(bad), how='key %s, extractor projects the key columns' % (keykinds,))


# ---------------------------------------------------------------------------------------------------------------
def check_method(prog, rep, name, helper_fns):
    """LanguageIdentifier::{maximize,minimize}: on Some(t) assign t.0/.1/.2 to language/script/region and return true;
    on None write nothing and return false; variants never written (C07 (4), C08 S7)"""
    found = []
    for n, b in prog.bodies.items():
        if n.startswith('unic_langid_impl::') and b['kind'] == 'AssocFn' and b.get('impl') and b['impl']['self_ty'] == 'LanguageIdentifier' \
                and not b['impl']['trait'] and n.endswith('::' + name):
            found.append(n)
    for fn in found:
        b = prog.bodies[fn]
        e = pxm.PX(prog, opaque=set(helper_fns))
        segs = e.explore(fn)
        bad = []
        fields = terms.struct_fields(prog.facts, 'unic_langid_impl::LanguageIdentifier') or []
        names = [f['name'] for f in fields]
        want = {names.index(x): i for i, x in enumerate(('language', 'script', 'region')) if x in names}
        saw_some = saw_none = False
        for s in segs:
            if s.kind != 'return':
                bad.append('path ends in %s' % s.kind)
                continue
            calls = [ev for ev in s.events if ev[0] == 'call' and ev[1] in helper_fns]
            if len(calls) != 1:
                bad.append('expected exactly one call of the likely-subtags function, found %d' % len(calls))
                continue
            args = calls[0][2]
            for i, a in enumerate(args):
                ap = terms.access_path(a)
                if ap is None or ap[0] != 1 or ap[1] != (list(want)[i],):
                    bad.append('argument %d of the call is not self.%s: %s' % (i, ('language', 'script', 'region')[i], e.short(a)))
            stores = [ev for ev in s.events if ev[0] == 'store']
            tagf = [v for k, v in s.state.facts.items() if k[0] == 'tag' and k[1][0] == 'call' and k[1][1] in helper_fns]
            if tagf == ['pos']:
                saw_some = True
                written = {}
                for ev in stores:
                    ap = terms.access_path(('ref', ev[1]))
                    if ap is None or ap[0] != 1 or len(ap[1]) != 1:
                        bad.append('write to %s' % e.fmt(ev[1]))
                        continue
                    written[ap[1][0]] = ev[2]
                if set(written) != set(want):
                    bad.append('on success the fields written are %s, expected exactly language, script, region' % sorted(names[i] for i in written))
                for fi, comp in want.items():
                    v = written.get(fi)
                    if v is None:
                        continue
                    src = v
                    ok = src[0] == 'fld' and src[2] == comp and src[1][0] == 'pos' and src[1][1][0] == 'call' and src[1][1][1] in helper_fns
                    if not ok:
                        bad.append('self.%s is assigned %s, not component %d of the result' % (names[fi], e.short(v), comp))
                if s.ret != ('int', 1):
                    bad.append('returns %s after changing the identifier' % e.short(s.ret))
            elif tagf == ['neg']:
                saw_none = True
                if stores:
                    bad.append('writes %s although the helper reported "unchanged"' % [e.fmt(ev[1]) for ev in stores])
                if s.ret != ('int', 0):
                    bad.append('returns %s although nothing changed' % e.short(s.ret))
            else:
                bad.append('result of the helper is not tested on this path')
        if not (saw_some and saw_none):
            bad.append('missing a path for the found / not-found outcome')
        rep.ob('method:%s' % name, 'CASC-METHOD', fn, b['span'],
               'LanguageIdentifier::%s writes exactly language/script/region from the helper\'s result and returns true, or writes nothing and returns false; variants untouched' % name,
               not bad, detail='\n'.join(sorted(set(bad))[:6]), how='%d paths' % len(segs))
    return found


# ---------------------------------------------------------------------------------------------------------------
def check_minimize(prog, rep):
    """C08 S1-S6 on likelysubtags::minimize with maximize kept opaque"""
    mx = find_likely_fn(prog, 'maximize')
    mns = [f for f in find_likely_fn(prog, 'minimize')]
    rep.floor('likelysubtags::minimize bodies', len(mns), 1)
    res = {'paths': 0, 'trials': 0}
    for fn in mns:
        b = prog.bodies[fn]
        proles = param_roles(b)
        pidx = {r: k for k, r in proles.items()}
        e = pxm.PX(prog, opaque=set(mx))
        try:
            segs = e.explore(fn)
        except pxm.Limit as ex:
            rep.ob('casc:minimize:explore', 'CASC-EXPLORE', fn, b['span'], 'minimize explored', False, 'INCONCLUSIVE(%s)' % ex)
            continue
        P = tuple(('param', pidx[r]) for r in COMP)
        bad_s1, bad_s3, bad_s4, bad_s5, bad_misc = [], [], [], [], []
        trial_kinds = set()
        for s in segs:
            if s.kind != 'return':
                bad_misc.append('path ends in %s' % s.kind)
                continue
            res['paths'] += 1
            items = list(s.state.facts.items())
            pres = presence_of(e, items, proles)
            calls = [ev for ev in s.events if ev[0] == 'call' and ev[1] in mx]
            # ---- S1: max := input when all present, else maximize(input)?
            full = all(pres.get(r) == 1 for r in COMP)
            if full:
                maxv = ('tuple', P)
                trial_calls = calls
            else:
                if not calls or tuple(calls[0][2]) != P:
                    if calls:
                        bad_s1.append('the first maximize call does not receive the input triple: %s' % e.short(calls[0][2], 200))
                    else:
                        if not (s.ret[0] == 'adt' and s.ret[2] == 'None'):
                            bad_s1.append('a non-full input is not maximized first')
                    continue
                first = find_call_term(items, s, calls[0])
                t = tag_of_call(items, calls[0])
                if t == 'neg':
                    if not (s.ret[0] == 'adt' and s.ret[2] == 'None') or len(calls) != 1:
                        bad_s1.append('input that cannot be maximized must give "unchanged" at once')
                    continue
                if t != 'pos' or first is None:
                    bad_s1.append('result of maximize(input) not tested')
                    continue
                maxv = ('pos', first)
                trial_calls = calls[1:]
            comp = lambda i: component(maxv, i)
            # ---- S3: trials in order (l,None,None), (l,None,r) if r present, (l,s,None) if s present; S2: only max is read
            seq = []
            for c in trial_calls:
                a = c[2]
                kind = None
                if a[0] == comp(0) and is_none(a[1]) and is_none(a[2]):
                    kind = 'L'
                elif a[0] == comp(0) and is_none(a[1]) and same_opt(a[2], comp(2)):
                    kind = 'LR'
                elif a[0] == comp(0) and same_opt(a[1], comp(1)) and is_none(a[2]):
                    kind = 'LS'
                else:
                    bad_s3.append('trial arguments are not a sub-form of the maximized identifier: %s' % e.short(a, 240))
                seq.append((kind, c))
                trial_kinds.add(kind)
            kinds = [k for k, _ in seq]
            # presence of max.2 / max.1 on this path
            mp = {}
            for k, v in items:
                if k[0] == 'tag':
                    for i in (1, 2):
                        if k[1] == comp(i):
                            mp[i] = v
            if full:
                mp = {1: 'pos', 2: 'pos'}
            # a trial whose optional component was not tested on this path must be made: for a present component it is the required trial, for an
            # absent one it repeats the (failed) language-only trial - maximize is pure (CASC-PURE) - so it can neither succeed nor change the outcome
            expect = ['L'] + (['LR'] if mp.get(2) in ('pos', None) else []) + (['LS'] if mp.get(1) in ('pos', None) else [])
            is_some = s.ret[0] == 'adt' and s.ret[2] == 'Some'
            if is_some:
                if kinds != expect[:len(kinds)]:
                    bad_s3.append('trial order %s, expected a prefix of %s' % (kinds, expect))
                # ---- S4: dominated by maximize(args) == Some(max) and returns exactly the trial's arguments
                lastk, lastc = seq[-1] if seq else (None, None)
                if lastc is None:
                    bad_s4.append('returns a value without a successful trial')
                    continue
                lt = tag_of_call(items, lastc)
                lterm = call_result_term(s, items, lastc)
                if trial_outcome(items, lterm, lt, maxv) != 'success':
                    bad_s4.append('form %s returned without having checked that it maximizes back to the maximized identifier' % lastk)
                rt = s.ret[3][0]
                if not (rt[0] == 'tuple' and tuple(rt[1]) == tuple(lastc[2])):
                    bad_s4.append('returned form %s differs from the trial %s that was checked' % (e.short(rt, 160), e.short(lastc[2], 160)))
                # earlier trials must have failed
                for k, c in seq[:-1]:
                    if trial_outcome(items, call_result_term(s, items, c), tag_of_call(items, c), maxv) != 'failure':
                        bad_s3.append('trial %s succeeded but a later form was returned' % k)
            else:
                if kinds != expect:
                    bad_s5.append('gives up after trials %s, expected %s' % (kinds, expect))
                for k, c in seq:
                    if trial_outcome(items, call_result_term(s, items, c), tag_of_call(items, c), maxv) != 'failure':
                        bad_s5.append('trial %s succeeded but "unchanged" is reported' % k)
        res['trials'] = len([k for k in trial_kinds if k])
        site = b['span']
        rep.ob('casc:minimize:s1', 'CASC-MIN-S1', fn, site, 'minimize first maximizes the input (or takes it as is when language, script and region are all present); failure gives "unchanged"',
               not bad_s1 and not bad_misc, detail='\n'.join(sorted(set(bad_s1 + bad_misc))[:6]), how='%d paths' % len(segs))
        rep.ob('casc:minimize:s3', 'CASC-MIN-S3', fn, site, 'trials are language, language-region (if a region), language-script (if a script) of the maximized identifier, in that order, first success wins',
               not bad_s3, detail='\n'.join(sorted(set(bad_s3))[:6]))
        rep.ob('casc:minimize:s4', 'CASC-MIN-S4', fn, site, 'a form is returned only after maximize(form) == maximized identifier was established, and it is exactly that form',
               not bad_s4, detail='\n'.join(sorted(set(bad_s4))[:6]))
        rep.ob('casc:minimize:s5', 'CASC-MIN-S5', fn, site, '"unchanged" is reported only after all applicable trials failed', not bad_s5, detail='\n'.join(sorted(set(bad_s5))[:6]))
        rep.floor('trial forms in minimize', res['trials'], 3)
    return res


def same_opt(a, b):
    """a designates the optional component b: b itself, or `Some(payload of b)` (a present component unwrapped and wrapped again)"""
    if a == b:
        return True
    if a[0] == 'adt' and a[2] == 'Some' and len(a[3]) == 1:
        p = a[3][0]
        while p[0] in ('cref',):
            p = p[1]
        if p == ('pos', b) or (p[0] == 'pos' and p[1] == b):
            return True
    return False


def is_none(v):
    return v[0] == 'adt' and v[2] == 'None'


def component(maxv, i):
    if maxv[0] == 'tuple':
        return maxv[1][i]
    return ('fld', maxv, i)


def call_result_term(s, items, callev):
    """the term standing for the result of a call event: from the tag fact about it, else from the `def` of its destination"""
    t = find_call_term(items, s, callev)
    if t is not None:
        return t
    for ev in s.state.events:
        if ev[0] == 'def' and isinstance(ev[2], tuple) and ev[2] and ev[2][0] == 'call' and ev[2][1] == callev[1] and tuple(ev[2][2]) == tuple(callev[2]):
            return ev[2]
    return None


def trial_outcome(items, cterm, tagv, maxv):
    """'success' | 'failure' | None for `maximize(form) == Some(max)`, whichever way it was tested:
    if let Some(t) = maximize(form) { if t == max .. }   or   maximize(form) == Some(max)"""
    if cterm is None:
        return 'failure' if tagv == 'neg' else None
    eq1 = [v for kk, v in items if kk[0] in ('pure', 'bin') and is_eq_of(kk, ('pos', cterm), maxv)]
    some_max = ('adt', 'core::std::option::Option', 'Some', (maxv,))
    eq2 = [v for kk, v in items if kk[0] in ('pure', 'bin') and is_eq_of(kk, cterm, some_max)]
    if (tagv == 'pos' and eq1 == [True]) or eq2 == [True]:
        return 'success'
    if tagv == 'neg' or eq1 == [False] or eq2 == [False]:
        return 'failure'
    return None


def tag_of_call(items, callev):
    for k, v in items:
        if k[0] == 'tag' and k[1][0] == 'call' and k[1][1] == callev[1] and tuple(k[1][2]) == tuple(callev[2]):
            return v
    return None


def find_call_term(items, s, callev):
    for k, v in items:
        if k[0] == 'tag' and k[1][0] == 'call' and k[1][1] == callev[1] and tuple(k[1][2]) == tuple(callev[2]):
            return k[1]
    return None


def is_eq_of(k, a, b):
    ops = k[2] if k[0] == 'pure' and k[1] == 'eq' else ((k[2], k[3]) if k[0] == 'bin' and k[1] == 'Eq' else None)
    if ops is None:
        return False
    def norm(x):
        while isinstance(x, tuple) and x and x[0] in ('cref', 'ref') and isinstance(x[1], tuple):
            x = x[1]
        return x
    o = (norm(ops[0]), norm(ops[1]))
    return o == (a, b) or o == (b, a)
