"""C11 — matches() implements missing-subtag-as-wildcard semantics (DESIGN §4.11, engine BOOL §3.12).

Each `matches` body is explored path by path (callees inlined); a path is a partial valuation of the atoms
    r1, r2            the two range flags
    s1[f], s2[f]      state of field f on either side: None / Some (/ Some-empty / Some-non-empty for the variant list)
    eq[f]             equality of field f on the two sides
and returns a constant or one eq atom.  For every completion of the partial valuation (consistent with what equality
of Options implies) the specification formula  AND_f ((r1 & empty(s1[f])) | (r2 & empty(s2[f])) | eq[f])  must give the
value the path returns.  The paths of PX partition all inputs, so this is the full truth table, decided symbolically."""
import itertools
from .. import px as pxm, terms
from . import common

LANGID = 'unic_langid_impl::LanguageIdentifier'


def eq_possible(a, b):
    if a == 'N' and b == 'N':
        return (True,)
    if a == 'SE' and b == 'SE':
        return (True,)
    if a == b or {a, b} == {'S'}:
        return (True, False)
    return (False,)


def is_empty_state(s):
    return s in ('N', 'SE')


class Field:
    def __init__(self, name, kind, p1, p2):
        self.name, self.kind, self.p1, self.p2 = name, kind, p1, p2   # p = (param, path) of the Option-valued place

    def domain(self):
        return ('N', 'SE', 'SN') if self.kind == 'optslice' else ('N', 'S')


def langid_fields(facts, side_params=(1, 2)):
    fs = terms.struct_fields(facts, LANGID)
    out = []
    if fs is None:
        return out
    for i, f in enumerate(fs):
        ty = terms.norm_ty(f['ty'])
        if ty.startswith('std::option::Option<std::boxed::Box<['):
            out.append(Field(f['name'], 'optslice', (side_params[0], (i,)), (side_params[1], (i,))))
        elif ty.startswith('std::option::Option<'):
            out.append(Field(f['name'], 'option', (side_params[0], (i,)), (side_params[1], (i,))))
        else:
            inner = terms.struct_fields(facts, ty)
            if inner and len(inner) == 1 and terms.norm_ty(inner[0]['ty']).startswith('std::option::Option<'):
                out.append(Field(f['name'], 'option', (side_params[0], (i, 0)), (side_params[1], (i, 0))))
            else:
                out.append(Field(f['name'], 'opaque', (side_params[0], (i,)), (side_params[1], (i,))))
    return out


def path_atoms(e, seg, fields):
    """-> (flags {3:bool,4:bool}, per-field constraints, foreign conditions)"""
    flags = {}
    cons = {f.name: {'s1': None, 's2': None, 'eq': None} for f in fields}
    foreign = []
    byplace = {}
    for f in fields:
        byplace[(f.p1[0], terms.strip_some(f.p1[1]))] = (f, 's1')
        byplace[(f.p2[0], terms.strip_some(f.p2[1]))] = (f, 's2')

    def place_of(t):
        ap = terms.access_path(t)
        if ap is None:
            return None
        return byplace.get((ap[0], terms.strip_some(ap[1])))

    for k, v in seg.state.facts.items():
        if k == ('param', 3) or k == ('param', 4):
            flags[k[1]] = bool(v)
            continue
        if k[0] == 'tag':
            hit = place_of(k[1])
            if hit:
                f, side = hit
                cur = cons[f.name][side]
                new = {'neg': {'N'}, 'pos': {'S', 'SE', 'SN'}}[v]
                cons[f.name][side] = new if cur is None else cur & new
                continue
        if (k[0] == 'pure' and k[1] == 'eq') or (k[0] == 'bin' and k[1] == 'Eq'):
            ops = k[2] if k[0] == 'pure' else (k[2], k[3])
            h1, h2 = place_of(ops[0]), place_of(ops[1])
            if h1 and h2 and h1[0] is h2[0] and {h1[1], h2[1]} == {'s1', 's2'}:
                cons[h1[0].name]['eq'] = bool(v)
                continue
        foreign.append(e.short(k, 160))
    # emptiness of a Some(list): shapes of subjects below a field place
    for subj, shp in seg.state.shapes.items():
        ap = terms.access_path(subj)
        if ap is None:
            continue
        for f in fields:
            for side, p in (('s1', f.p1), ('s2', f.p2)):
                if ap[0] == p[0] and terms.strip_some(ap[1])[:len(p[1])] == p[1] and f.kind == 'optslice':
                    ls = shp.lengths()
                    new = set()
                    if 0 in ls:
                        new.add('SE')
                    if ls - {0}:
                        new.add('SN')
                    cur = cons[f.name][side]
                    cons[f.name][side] = (new | ({'N'} if cur is None else set())) & (cur if cur is not None else {'N', 'SE', 'SN'}) if cur is not None else new
    return flags, cons, foreign


def ret_atom(e, ret, fields):
    """('const', b) | ('eq', field) | ('?', text)"""
    if ret is None:
        return ('?', 'no value')
    if ret[0] == 'int' and ret[1] in (0, 1):
        return ('const', bool(ret[1]))
    if ret in (('param', 3), ('param', 4)):
        return ('flag', ret[1], True)          # `.. && as_range` evaluated last: the flag itself is the result
    if ret[0] == 'un' and ret[1] == 'Not' and ret[2] in (('param', 3), ('param', 4)):
        return ('flag', ret[2][1], False)
    if ret[0] == 'pure' and ret[1] == 'eq':
        a, b = ret[2]
        pa, pb = terms.access_path(a), terms.access_path(b)
        if pa and pb:
            for f in fields:
                sides = {(f.p1[0], terms.strip_some(f.p1[1])): 1, (f.p2[0], terms.strip_some(f.p2[1])): 2}
                x, y = sides.get((pa[0], terms.strip_some(pa[1]))), sides.get((pb[0], terms.strip_some(pb[1])))
                if x and y and x != y:
                    return ('eq', f)
    return ('?', e.short(ret, 200))


def check_truth_table(prog, fn, fields, rep, key, what, opaque=()):
    b = prog.bodies[fn]
    e = pxm.PX(prog, opaque=opaque)
    try:
        segs = e.explore(fn)
    except pxm.Limit as ex:
        rep.ob(key, 'BOOL-TABLE', fn, b['span'], what, False, 'INCONCLUSIVE(%s)' % ex)
        return 0
    bad = []
    nval = 0
    npaths = 0
    for s in segs:
        if s.kind != 'return':
            bad.append('path ends in %s' % s.kind)
            continue
        npaths += 1
        flags, cons, foreign = path_atoms(e, s, fields)
        if foreign:
            bad.append('result depends on a condition outside the specification: %s' % '; '.join(foreign[:2]))
            continue
        r = ret_atom(e, s.ret, fields)
        if r[0] == '?':
            bad.append('returned value is not a constant or a field equality: %s' % r[1])
            continue
        # per-field consistent triples
        triples = {}
        feasible = True
        for f in fields:
            dom = f.domain()
            if f.kind == 'optslice':
                conv = lambda c: {x for x in dom if c is None or x in c or (x in ('SE', 'SN') and 'S' in c)}
            else:
                conv = lambda c: {x for x in dom if c is None or x in c or (x == 'S' and c & {'S', 'SE', 'SN'})}
            c = cons[f.name]
            tr = []
            for a in conv(c['s1']):
                for bb in conv(c['s2']):
                    for q in eq_possible(a, bb):
                        if c['eq'] is None or c['eq'] == q:
                            tr.append((a, bb, q))
            if not tr:
                feasible = False
            triples[f.name] = tr
        if not feasible:
            continue
        for r1 in ([flags[3]] if 3 in flags else [False, True]):
            for r2 in ([flags[4]] if 4 in flags else [False, True]):
                vals = {}
                for f in fields:
                    vals[f.name] = {((r1 and is_empty_state(a)) or (r2 and is_empty_state(bb)) or q) for a, bb, q in triples[f.name]}
                nval += 1
                r0 = r
                if r[0] == 'flag':
                    fv = r1 if r[1] == 3 else r2
                    r = ('const', fv if r[2] else not fv)
                if r[0] == 'const':
                    if r[1]:
                        wrong = [f.name for f in fields if vals[f.name] != {True}]
                        if wrong:
                            bad.append('returns true although field %s need not match (flags %s/%s, %s)' % (wrong[0], r1, r2, desc(cons[wrong[0]])))
                    else:
                        if not any(vals[f.name] == {False} for f in fields):
                            bad.append('returns false although every field may match (flags %s/%s, %s)' % (r1, r2, '; '.join('%s: %s' % (f.name, desc(cons[f.name])) for f in fields)))
                else:
                    g = r[1]
                    wrong = [f.name for f in fields if f is not g and vals[f.name] != {True}]
                    if wrong:
                        bad.append('returns %s equality although field %s need not match (flags %s/%s)' % (g.name, wrong[0], r1, r2))
                    for a, bb, q in triples[g.name]:
                        if ((r1 and is_empty_state(a)) or (r2 and is_empty_state(bb)) or q) != q:
                            bad.append('returns %s equality where the wildcard rule applies (flags %s/%s, states %s/%s)' % (g.name, r1, r2, a, bb))
                            break
                r = r0
    und = {k: v for k, v in e.unmodelled.items()}
    if und:
        bad.append('INCONCLUSIVE(unmodelled callee %s)' % list(und)[0])
    rep.ob(key, 'BOOL-TABLE', fn, b['span'], what, not bad and npaths > 0, detail='\n'.join(sorted(set(bad))[:8]),
           how='%d paths, %d flag completions checked against the formula over fields %s' % (npaths, nval, [f.name for f in fields]))
    return npaths


def desc(c):
    return 's1=%s s2=%s eq=%s' % (sorted(c['s1']) if c['s1'] else '?', sorted(c['s2']) if c['s2'] else '?', c['eq'])


def find_fn(prog, crate, self_suffix, name, trait=''):
    out = []
    for n, b in prog.bodies.items():
        if not n.startswith(crate + '::') or b['kind'] != 'AssocFn' or not b.get('impl'):
            continue
        im = b['impl']
        if not (im['self_ty'] == self_suffix or im['self_ty'].endswith('::' + self_suffix)):
            continue
        if (trait and trait not in im['trait']) or (not trait and im['trait']):
            continue
        if n.endswith('::' + name):
            out.append(n)
    return sorted(out)


def run(tier, replay=None):
    rep = common.new_report('C11', tier, 'proof')
    prog = common.program('K0')
    facts = prog.facts
    rep.count('configuration', 'K0 (%d bodies)' % len(prog.bodies))
    total_paths = 0

    # ---- LanguageIdentifier::matches: the whole composition, callees inlined
    fns = find_fn(prog, 'unic_langid_impl', 'LanguageIdentifier', 'matches')
    fields = langid_fields(facts)
    rep.floor('fields of LanguageIdentifier compared', len([f for f in fields if f.kind != 'opaque']), 4)
    opaque_fields = [f.name for f in fields if f.kind == 'opaque']
    rep.ob('langid-fields-understood', 'BOOL-ANCHOR', LANGID, facts.adts.get(LANGID, {}).get('span', '-'),
           'every field of LanguageIdentifier is an optional subtag or an optional list (the wildcard rule applies to each)', not opaque_fields and fields,
           detail='ANCHOR-MISSING: field(s) %s have a representation the matcher specification does not cover' % opaque_fields)
    for fn in fns:
        total_paths += check_truth_table(prog, fn, fields, rep, 'truth:LanguageIdentifier::matches',
                                         'LanguageIdentifier::matches = AND over language, script, region, variants of (range&empty on either side, or equal)')
    rep.floor('LanguageIdentifier::matches bodies', len(fns), 1)

    # ---- Language::matches standalone (public API)
    lfns = find_fn(prog, 'unic_langid_impl', 'Language', 'matches')
    for fn in lfns:
        f = Field('language', 'option', (1, (0,)), (2, (0,)))
        total_paths += check_truth_table(prog, fn, [f], rep, 'truth:Language::matches', 'Language::matches treats the empty language as the wildcard of the flagged side')
    rep.floor('Language::matches bodies', len(lfns), 1)

    # ---- private helpers reachable from LanguageIdentifier::matches with the (x, x, bool, bool) -> bool shape
    helpers = []
    for n, b in prog.bodies.items():
        s = b.get('sig')
        if n.startswith('unic_langid_impl::') and b['kind'] == 'Fn' and s and len(s['inputs']) == 4 and s['inputs'][2:] == ['bool', 'bool'] and s['output'] == 'bool' \
                and s['inputs'][0] == s['inputs'][1] and s['inputs'][0].startswith('&std::option::Option<'):
            helpers.append(n)
    for fn in sorted(helpers):
        kind = 'optslice' if 'Box<[' in prog.bodies[fn]['sig']['inputs'][0] else 'option'
        f = Field('operand', kind, (1, ()), (2, ()))
        total_paths += check_truth_table(prog, fn, [f], rep, 'truth:helper:%s' % fn.split('::')[-1],
                                         '%s(a, b, ra, rb) = (ra & a empty) | (rb & b empty) | a == b' % fn.split('::')[-1])
    rep.count('helper matchers analysed', ', '.join(h.split('::')[-1] for h in sorted(helpers)) or 'none')

    # ---- Locale::matches
    locale_matches(prog, rep)
    # ---- AsRef impls
    asref(prog, rep)
    # ---- the truth tables read "Some(empty list)" as empty, while the derived == inside matches does not: the wildcard formula holds only
    # on values whose "no variants" is always None -- the representation typestate of every constructor and mutator (shared with C10/C12)
    from . import c10
    nctor = c10.representation_obligations(rep, cfgs=('K0',))
    rep.floor('constructors analysed', nctor, 5)
    # ---- likewise "the language is empty" is read as Language(None): that is the wildcard only if every spelling of `und` is stored as None and
    # nothing else is (the subtag validators and the empty-language API, shared with C15); two equal subtags must have one stored form
    from . import validators, subtag_api
    validators.run_all(prog, rep, roles_wanted={'Language', 'Script', 'Region', 'Variant'})
    subtag_api.language_empty(prog, rep, validators.load_roles())
    # "has private-use subtags" for a parsed Locale: the dispatcher hands everything after -x- to the private parser, which stores every remaining subtag
    from . import parserules
    for which in ('dispatch', 'private'):
        parserules.check(prog, rep, which)
    rep.count('decision paths analysed', total_paths)
    rep.floor('decision paths', total_paths, 200)
    # values built by the compile-time macros belong to this property's domain as well: the macro witnesses of C16 (cached per tree)
    from . import c16
    c16.witness_family(rep, tier)
    rep.explanation = ('Finite truth tables decided symbolically: each matches body is explored path by path (callees inlined, every branch on a flag, on the '
                       'presence of a field or on a field equality is a fork); each path is compared with the wildcard formula under every completion of its '
                       'partial valuation.  Symmetry, reflexivity, monotonicity in the flags and coincidence with equality are consequences of the formula.')
    rep.assumptions = ['derived PartialEq on Option/Box<[T]> is structural equality (std)', 'values built with the unchecked constructors are outside the quantifier']
    return rep.finish()


def locale_matches(prog, rep):
    facts = prog.facts
    fns = find_fn(prog, 'unic_locale_impl', 'Locale', 'matches')
    rep.floor('Locale::matches bodies', len(fns), 1)
    li = find_fn(prog, 'unic_langid_impl', 'LanguageIdentifier', 'matches')
    for fn in fns:
        b = prog.bodies[fn]
        e = pxm.PX(prog, opaque=set(li))
        segs = e.explore(fn)
        bad = []
        ndeleg = 0
        for s in segs:
            if s.kind != 'return':
                bad.append('path ends in %s' % s.kind)
                continue
            # atoms: emptiness of the private list of either side
            priv = {}
            foreign = []
            for k, v in s.state.facts.items():
                side = private_emptiness(facts, k)
                if side is None:
                    foreign.append(e.short(k, 160))
                else:
                    priv[side] = bool(v)
            if foreign:
                bad.append('result depends on a condition outside the specification: %s' % foreign[0])
                continue
            r = s.ret
            if r[0] == 'int':
                nonempty = [sd for sd, v in priv.items() if v is False]
                if r[1] == 0 and not nonempty:
                    bad.append('returns false although no private-use list is known to be non-empty (%s)' % priv)
                if r[1] == 1:
                    bad.append('returns true without consulting the language identifiers')
            elif r[0] == 'call' and r[1] in li:
                ndeleg += 1
                if not (priv.get(1) is True and priv.get(2) is True):
                    bad.append('delegates to the language identifiers although a private-use list may be non-empty (%s)' % priv)
                a = r[2]
                p1, p2 = terms.access_path(a[0]), terms.access_path(a[1])
                ok = p1 and p2 and p1[0] == 1 and p2[0] == 2 and p1[1] == p2[1] and len(p1[1]) == 1 \
                    and terms.type_at(facts, 'unic_locale_impl::Locale', p1[1]) in ('unic_langid_impl::LanguageIdentifier', 'LanguageIdentifier') \
                    and a[2] == ('param', 3) and a[3] == ('param', 4)
                if not ok:
                    bad.append('delegation does not pass (self.id, other.id, self_as_range, other_as_range) in that order: %s' % e.short(r, 300))
            else:
                bad.append('result not understood: %s' % e.short(r, 200))
        if not ndeleg:
            bad.append('no path delegates to LanguageIdentifier::matches')
        rep.ob('locale-matches', 'BOOL-LOCALE', fn, b['span'],
               'Locale::matches is false when either side has private-use subtags, else exactly id.matches(other.id, flags); -u-/-t- content is not read',
               not bad, detail='\n'.join(sorted(set(bad))[:6]), how='%d paths' % len(segs))


def private_emptiness(facts, k):
    """is fact key `k` the emptiness test of Locale.extensions.private of side 1/2? -> side or None"""
    if k[0] == 'pure' and k[1].endswith('::is_empty') and len(k[2]) == 1:
        ap = terms.access_path(k[2][0])
        if ap is None:
            return None
        path = terms.strip_some(ap[1])
        # the path must lead to (or into the single vector of) the private-use list type
        for cut in (len(path), len(path) - 1):
            if cut < 1:
                continue
            t = terms.type_at(facts, 'unic_locale_impl::Locale', path[:cut])
            if t and t.endswith('PrivateExtensionList'):
                return ap[0]
    if k[0] == 'bin' and k[1] == 'Eq' and k[2][0] == 'len':
        return None
    return None


def asref(prog, rep):
    facts = prog.facts
    n = 0
    for im in facts.impls:
        if not im['trait_def'].endswith('convert::AsRef') or not (im['def'].startswith('unic_langid_impl::') or im['def'].startswith('unic_locale_impl::')):
            continue
        if im['self_ty'] not in ('Locale', 'LanguageIdentifier'):
            continue
        for it in im['items']:
            if it not in prog.bodies:
                continue
            n += 1
            e = pxm.PX(prog)
            segs = e.explore(it)
            target = im['trait'].split('AsRef<')[-1].rstrip('>')
            ok = len(segs) == 1 and segs[0].kind == 'return'
            detail = ''
            if ok:
                ap = terms.access_path(segs[0].ret)
                same = target.split('::')[-1] == im['self_ty']
                if same:
                    ok = ap == (1, ())
                else:
                    ok = ap is not None and ap[0] == 1 and len(ap[1]) == 1 and (terms.type_at(facts, 'unic_locale_impl::' + im['self_ty'], ap[1]) or '').endswith(target.split('::')[-1])
                detail = 'returns %s' % e.short(segs[0].ret)
            rep.ob('asref:%s:%s' % (im['self_ty'], target.split('::')[-1]), 'BOOL-ASREF', it, im['span'],
                   'AsRef<%s> for %s returns %s' % (target.split('::')[-1], im['self_ty'], 'self' if target.split('::')[-1] == im['self_ty'] else 'the embedded language identifier'), ok, detail=detail)
    rep.floor('AsRef impls of LanguageIdentifier/Locale', n, 3)
