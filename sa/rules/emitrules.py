"""EMIT obligations (DESIGN §3.10, §4.4): emission grammar of every value-type Display impl equals the specification; guards."""
import re
from .. import emit, terms, px as pxm

T4, T8 = 'TinyAsciiStr<4>', 'TinyAsciiStr<8>'
MAP = 'BTreeMap<%s,Vec<%s>>' % (T4, T8)
VEC8 = 'Vec<%s>' % T8


def lit(b):
    return ('lit', b)


def sym(n):
    return ('sym', n)


def seq(*xs):
    return ('seq', list(xs))


def opt(x):
    return ('opt', x)


def star(x):
    return ('star', x)


def alt(*xs):
    return ('alt', list(xs))


EPS = ('seq', [])
KV = star(seq(lit(b'-'), sym(MAP + '.elem.key'), star(seq(lit(b'-'), sym(MAP + '.elem.val.elem')))))

SPEC = {
    'LanguageIdentifier': seq(alt(lit(b'und'), sym('Language')), opt(seq(lit(b'-'), sym('Option<Script>'))), opt(seq(lit(b'-'), sym('Option<Region>'))),
                              star(seq(lit(b'-'), sym('Option<Box<[Variant]>>.elem')))),
    'Language': alt(lit(b'und'), sym('Option<%s>' % T8)),
    'Script': sym(T4),
    'Region': sym(T4),
    'Variant': sym(T8),
    'Locale': seq(sym('LanguageIdentifier'), sym('ExtensionsMap')),
    'ExtensionsMap': seq(sym('TransformExtensionList'), sym('UnicodeExtensionList'), sym('PrivateExtensionList')),
    'PrivateExtensionList': alt(EPS, seq(lit(b'-x'), star(seq(lit(b'-'), sym(VEC8 + '.elem'))))),
    'UnicodeExtensionList': alt(EPS, seq(lit(b'-u'), star(seq(lit(b'-'), sym(VEC8 + '.elem'))), KV)),
    'TransformExtensionList': alt(EPS, seq(lit(b'-t'), opt(seq(lit(b'-'), sym('Option<LanguageIdentifier>'))), KV)),
}
TEXT = {
    'LanguageIdentifier': "language ('-' script)? ('-' region)? ('-' variant)*",
    'Language': "'und' | text", 'Script': 'text', 'Region': 'text', 'Variant': 'text',
    'Locale': 'id extensions', 'ExtensionsMap': 'transform unicode private',
    'PrivateExtensionList': "e | '-x' ('-' tag)*",
    'UnicodeExtensionList': "e | '-u' ('-' attribute)* ('-' key ('-' type)*)*",
    'TransformExtensionList': "e | '-t' ('-' tlang)? ('-' tkey ('-' tvalue)*)*",
}


def display_impls(prog):
    out = {}
    for n, b in prog.bodies.items():
        im = b.get('impl')
        if not im or not im['trait_def'].endswith('fmt::Display') or not n.endswith('::fmt'):
            continue
        if not (n.startswith('unic_langid_impl::') or n.startswith('unic_locale_impl::')):
            continue
        ty = im['self_ty'].split('::')[-1]
        if ty in SPEC:
            out.setdefault(ty, []).append(n)
    return out


is_err_ret = emit.is_err_ret
segment_nfa = emit.segment_nfa


def guards(prog, em, ty, full):
    """optional field printed iff present; every fetched element printed; empty form only when everything printed is empty"""
    bad = []
    e = em.e
    fs = (terms.struct_fields(prog.facts, full) or []) if full else []
    opt_fields = [(i, emit.simple_ty(f['ty'])) for i, f in enumerate(fs) if terms.norm_ty(f['ty']).startswith('std::option::Option<') and 'Box<[' not in f['ty']]
    coll_fields = [(i, emit.simple_ty(f['ty'])) for i, f in enumerate(fs) if re.match(r'^(std::vec::Vec<|std::collections::BTreeMap<)', terms.norm_ty(f['ty']))]
    optslice = [(i, emit.simple_ty(f['ty'])) for i, f in enumerate(fs) if 'Option<std::boxed::Box<[' in terms.norm_ty(f['ty'])]
    for s in em.segs:
        if s.kind == 'panic' or is_err_ret(s):
            continue
        sy = em.symbols(s)
        if sy is None:
            continue
        syms = [x for x in sy if isinstance(x, str)] + [y for x in sy if isinstance(x, tuple) and x[0] in ('ALT', 'STAR') for alt in x[1] for y in alt if isinstance(y, str)] \
            + [y for x in sy if isinstance(x, tuple) and x[0] == 'SUB' for y in x[1].alphabet() if isinstance(y, str)]
        facts = s.facts
        if s.src[0] == 'entry' and s.kind == 'loop' and s.dst in em.composite_rx:
            # the optional parts are printed by the loop over a composite iterator built on this path (chain of Option values)
            syms = syms + sorted(emit.ast_syms(em.composite_rx[s.dst]))
        if s.src[0] == 'entry':
            for i, role in opt_fields:
                tag = None
                for k, v in facts.items():
                    if k[0] == 'tag':
                        ap = terms.access_path(k[1])
                        if ap and ap[0] == 1 and terms.strip_some(ap[1]) == (i,):
                            tag = v
                printed = ('<%s>' % role) in syms
                prefix_only = len(fs) > 1
                if ty in ('UnicodeExtensionList', 'TransformExtensionList', 'PrivateExtensionList') and not sy:
                    # the empty form: the field must be known absent
                    if tag != 'neg':
                        bad.append('prints nothing although %s may be present' % role)
                    continue
                if printed and tag != 'pos':
                    bad.append('%s printed on a path where it is not known to be present' % role)
                if not printed and tag != 'neg':
                    bad.append('%s may be present but is not printed' % role)
            if ty in ('UnicodeExtensionList', 'TransformExtensionList', 'PrivateExtensionList') and not sy and s.kind == 'return':
                for i, role in coll_fields:
                    known = False
                    for k, v in facts.items():
                        if k[0] == 'pure' and k[1].split('::')[-1] == 'is_empty' and v is True:
                            ap = terms.access_path(k[2][0])
                            if ap and ap[0] == 1 and terms.strip_some(ap[1])[:1] == (i,):
                                known = True
                    if not known:
                        bad.append('prints nothing although %s may be non-empty' % role)
        # every element fetched from an iterator is printed; the loop is left only when the iterator is exhausted
        for ev in s.events:
            if ev[0] != 'next':
                continue
            it, k = ev[1], ev[2]
            tag = facts.get(('tag', ('has', it, k)))
            if it in em.composite_ok:
                continue          # a composite iterator (chain / flat_map / once): its element sequence is part of the emission automaton itself
            src = em.iter_source(s.state, it)
            nm = em.role_name(src + (('elem',),)) if src is not None else None
            if nm is None:
                bad.append('INCONCLUSIVE(iterator %s not traced to a field of self)' % e.fmt(it))
                continue
            emitted = [x for x in syms if x.startswith('<' + nm)]
            if tag == 'pos' and not emitted:
                bad.append('an element of %s is fetched but not printed' % nm)
            if tag is None and not emitted:
                bad.append('iteration over %s may stop before the end' % nm)
        # optional list (variants): entering the loop requires Some; None prints nothing more
    return sorted(set(bad))


def check_display(prog, rep, wanted=None):
    impls = display_impls(prog)
    n = 0
    for ty in sorted(SPEC):
        if wanted and ty not in wanted:
            continue
        fns = impls.get(ty, [])
        if not fns:
            rep.ob('emit:%s:anchor' % ty, 'EMIT-ANCHOR', ty, '-', 'Display impl of %s found' % ty, False, 'ANCHOR-MISSING')
            continue
        for fn in fns:
            n += 1
            b = prog.bodies[fn]
            full, adt = terms.find_adt(prog.facts, b['impl']['self_ty'])
            try:
                em = emit.Emission(prog, fn, full)
            except pxm.Limit as ex:
                rep.ob('emit:%s:grammar' % ty, 'EMIT-GRAMMAR', fn, b['span'], 'Display explored', False, 'INCONCLUSIVE(%s)' % ex)
                continue
            res = segment_nfa(em)
            spec = emit.regex_nfa(SPEC[ty])
            bad = []
            how = ''
            if res is None:
                bad.append('no entry segment')
            else:
                nfa, probs = res
                bad.extend('INCONCLUSIVE(%s)' % p for p in probs)
                if not probs:
                    ok, w, side = emit.equivalent(nfa, spec)
                    if not ok:
                        if side == 'code':
                            bad.append('Display can emit %r, which the canonical grammar %s does not allow' % (emit.show(w), TEXT[ty]))
                        elif side == 'spec':
                            bad.append('the canonical form %r (grammar %s) cannot be emitted' % (emit.show(w), TEXT[ty]))
                        else:
                            bad.append('INCONCLUSIVE(automata too large)')
                    how = 'NFA of %d segments equivalent to the grammar %s' % (len(em.segs), TEXT[ty])
            if em.e.unmodelled:
                un = [u for u in em.e.unmodelled if not re.search(r'(write_str|write_char|write_fmt|::fmt|::try_for_each)$', u)]
                if un:
                    bad.append('INCONCLUSIVE(unmodelled callee %s)' % un[0])
            rep.ob('emit:%s:grammar' % ty, 'EMIT-GRAMMAR', fn, b['span'], 'Display for %s emits exactly  %s' % (ty, TEXT[ty]), not bad, detail='\n'.join(sorted(set(bad))[:4]), how=how,
                   witness=None)
            g = guards(prog, em, ty, full)
            for sub in em.subs:
                # a printing helper with loops: every element it fetches is printed, its loops end only at the end of their collection
                g = sorted(set(g) | set(x for x in guards(prog, sub, '(helper)', None) if 'fetched' in x or 'may stop' in x or 'INCONCLUSIVE' in x))
            rep.ob('emit:%s:guards' % ty, 'EMIT-GUARD', fn, b['span'],
                   'Display for %s prints each optional part iff it is present, every element of every collection, and nothing only when everything is empty' % ty,
                   not g, detail='\n'.join(g[:4]))
    return n
