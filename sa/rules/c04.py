"""C04 — serialisation always emits the canonical well-formed form (DESIGN §4.4)."""
from .. import px as pxm, terms
from . import common, emitrules, validators, c10, entry

PRIVATE_TEXT_FIELDS = {
    # type -> every field must be private (text / ordered collections that bypassing validation would corrupt)
    'Language': 'unic_langid_impl', 'Script': 'unic_langid_impl', 'Region': 'unic_langid_impl', 'Variant': 'unic_langid_impl',
    'UnicodeExtensionList': 'unic_locale_impl', 'TransformExtensionList': 'unic_locale_impl', 'PrivateExtensionList': 'unic_locale_impl',
}


def privacy(prog, rep):
    """what a privacy compile-fail witness would show, read from the type-checked items: no field that holds validated text or an
    ordered collection can be written from outside the crate"""
    facts = prog.facts
    n = 0
    for ty, crate in sorted(PRIVATE_TEXT_FIELDS.items()):
        full, adt = terms.find_adt(facts, ty)
        if adt is None:
            rep.ob('privacy:%s' % ty, 'ITEM-PRIVATE', ty, '-', 'type %s found' % ty, False, 'ANCHOR-MISSING')
            continue
        pub = [f['name'] for f in adt['variants'][0]['fields'] if f['vis'] == 'Public']
        n += len(adt['variants'][0]['fields'])
        rep.ob('privacy:%s' % ty, 'ITEM-PRIVATE', full, adt['span'], 'no field of %s is public (its text / ordering can only be produced by the validating API)' % ty, not pub,
               detail='public fields: %s' % pub)
    full, adt = terms.find_adt(facts, 'unic_langid_impl::LanguageIdentifier')
    if adt:
        pub = [f['name'] for f in adt['variants'][0]['fields'] if f['vis'] == 'Public' and 'Variant' in f['ty']]
        rep.ob('privacy:LanguageIdentifier.variants', 'ITEM-PRIVATE', full, adt['span'], 'the variant list of LanguageIdentifier is private (sortedness cannot be broken by assignment)', not pub, detail=str(pub))
        n += 1
    return n


def canonicalize_shape(prog, rep, only=None):
    from . import c13
    n = 0
    core, disp = c13.parsers(prog)
    for crate, ty in (('unic_langid_impl', 'LanguageIdentifier'), ('unic_locale_impl', 'Locale')):
        if only and crate != only:
            continue
        for fn in entry.find_fn(prog, crate, 'canonicalize'):
            if fn.count('::') != 1:
                continue
            n += 1
            b = prog.bodies[fn]
            bad, npaths = c13.wiring_paths(prog, fn, 0 if ty == 'LanguageIdentifier' else 1, core, disp, wrap='to_string')
            rep.ob('canonicalize:%s' % crate, 'EMIT-CANON', fn, b['span'], '%s::canonicalize = %s::from_bytes(input)?.to_string() and nothing else' % (crate, ty), not bad,
                   detail='\n'.join(bad[:4]), how='%d paths' % npaths)
    rep.floor('canonicalize functions', n, 1 if only else 2)


def run(tier, replay=None):
    rep = common.new_report('C04', tier, 'other')
    prog = common.program('K0')
    rep.count('configuration', 'K0 (%d bodies)' % len(prog.bodies))
    n = emitrules.check_display(prog, rep)
    rep.floor('value-type Display impls', n, 10)
    validators.run_all(prog, rep)
    c10.mutator_obligations(rep, cfgs=('K0',), with_getters=False)
    np = privacy(prog, rep)
    rep.floor('fields covered by the privacy rule', np, 9)
    canonicalize_shape(prog, rep)
    # values produced by maximize/minimize come from the tables: every stored integer must decode to canonical text (shared with C18)
    from . import tables
    tables.likely(common.program('K1'), rep)
    # values obtained by parsing: every consumed subtag is stored through its validator into its own slot (parser tables, shared with C03)
    from . import parserules
    for which in ('core', 'dispatch', 'unicode', 'transform', 'private'):
        parserules.check(prog, rep, which)
    # values built by the compile-time macros belong to this property's domain as well: the macro witnesses of C16 (cached per tree)
    from . import c16
    c16.witness_family(rep, tier)
    rep.explanation = ('The printed string is canonical because (a) the emission grammar of every Display impl equals the canonical grammar (order language/script/region/variants; t, u, x; '
                       'attributes before keywords; tlang before tfields; only the literals "-", "-u", "-t", "-x", "und"; each optional part iff present; every element; nothing when empty) - '
                       'decided by automaton equivalence on the MIR-derived emission automaton; (b) what is printed verbatim is canonical text: every validator accepts exactly its production and '
                       'stores the specified case form, "true" values are never stored, every value inserted by a setter is the validated argument, text-carrying fields are private; '
                       '(c) ordered collections are sorted / duplicate-free at every exit of every mutator and constructor; maps are BTreeMaps; (d) canonicalize is parse-then-print. '
                       '"Never longer than the input" is not decided (numeric fact about run-time strings).')
    rep.assumptions = ['Display for TinyAsciiStr writes exactly its text (tinystr 0.7.6)', 'BTreeMap iterates in key order, Vec in index order (std)',
                       'values built with from_raw_parts_unchecked / from_raw_unchecked are outside the quantifier']
    return rep.finish()
