"""PAIR — sibling agreement of the raw integer encodings (DESIGN §3.15): From<subtag> for uN and from_raw_unchecked are
inverse packings with the same byte order and the full TinyStr width."""
import re
from .. import px as pxm

SUBTAGS = {'Language': (8, 'u64'), 'Script': (4, 'u32'), 'Region': (4, 'u32'), 'Variant': (8, 'u64')}


def contains_term(v, pred):
    if not isinstance(v, tuple):
        return None
    if pred(v):
        return v
    for x in v:
        if isinstance(x, tuple):
            r = contains_term(x, pred)
            if r is not None:
                return r
    return None


def order_of(name):
    m = re.search(r'::(from|to)_(le|be|ne)_bytes$', name)
    return {'le': 'little', 'be': 'big', 'ne': 'native'}[m.group(2)] if m else None


def raw_encoding(prog, rep=None):
    """-> dict role -> {'decode': order, 'encode': [orders], 'width': n}; emits obligations when rep is given"""
    facts = prog.facts
    out = {}
    n_dec = n_enc = 0
    for role, (width, ity) in SUBTAGS.items():
        adt = [n for n in facts.adts if n.startswith('unic_langid_impl::') and n.endswith('::' + role)]
        info = {'decode': None, 'encode': [], 'width': width}
        # decoder: unsafe fn(uN) -> Self
        for n, b in facts.bodies.items():
            if b['kind'] != 'AssocFn' or not b.get('impl') or b['impl']['trait'] or not b['impl']['self_ty'].endswith('::' + role):
                continue
            s = b['sig']
            if not (s and s['unsafe'] and s['inputs'] == [ity] and s['output'].endswith('::' + role)):
                continue
            n_dec += 1
            e = pxm.PX(prog)
            segs = e.explore(n)
            ok = len(segs) == 1 and segs[0].kind == 'return'
            detail = ''
            if ok:
                r = segs[0].ret
                t = contains_term(r, lambda v: v[0] == 'pure' and order_of(v[1]) and v[1].split('::')[-1].startswith('to_'))
                fb = contains_term(r, lambda v: v[0] == 'pure' and v[1].endswith('from_bytes_unchecked'))
                ok = bool(t and fb and t[2] == (('param', 1),) and fb[2] == (t,) and r[0] == 'adt' and r[2] == role)
                if ok:
                    info['decode'] = order_of(t[1])
                    ok = info['decode'] == 'little' or info['decode'] == 'big'
                detail = 'returns %s' % e.short(r, 240)
            if rep is not None:
                rep.ob('pair:%s:decode' % role, 'PAIR-RAW', n, b['span'], '%s::from_raw_unchecked unpacks the whole integer with a fixed byte order into the TinyStr' % role, ok, detail=detail,
                       how='byte order %s, width %d' % (info['decode'], width))
        # encoders: From<Role> / From<&Role> for uN / Option<uN>
        for imp in facts.impls:
            if not imp['trait_def'].endswith('convert::From'):
                continue
            src = pxm.PX.from_arg(imp['trait'])
            if not (src.endswith('::' + role) and imp['self_ty'] in (ity, 'std::option::Option<%s>' % ity)):
                continue
            for it in imp['items']:
                if not it.endswith('::from') or it not in facts.bodies:
                    continue
                n_enc += 1
                e = pxm.PX(prog)
                segs = e.explore(it)
                ok = bool(segs)
                orders = set()
                detail = []
                for sg in segs:
                    if sg.kind != 'return':
                        ok = False
                        continue
                    r = sg.ret
                    if r[0] == 'adt' and r[2] == 'None':
                        # only Language may be empty
                        ok = ok and role == 'Language'
                        continue
                    t = contains_term(r, lambda v: v[0] == 'pure' and order_of(v[1]) and v[1].split('::')[-1].startswith('from_'))
                    ab = contains_term(r, lambda v: v[0] == 'pure' and v[1].endswith('::all_bytes'))
                    good = bool(t and ab and contains_term(t, lambda v: v is ab) is not None)
                    if good:
                        # exactly uN::from_xx_bytes(<all bytes>) of the role's own width, returned as it is (or inside Some): nothing selects,
                        # masks or re-packs part of the bytes on the way
                        a = t[2][0] if len(t[2]) == 1 else None
                        while a is not None and a is not ab and a[0] in ('init', 'P', 'cref', 'ref', 'deref', 'copy') and len(a) >= 2 and isinstance(a[1], tuple):
                            a = a[1]
                        top = r[3][0] if (r[0] == 'adt' and r[2] == 'Some' and len(r[3]) == 1) else r
                        good = a is ab and top is t and ('<impl %s>' % ity) in t[1]
                    # the bytes must be those of the stored text (field 0 of the argument)
                    src_ok = ab is not None and contains_term(ab, lambda v: v in (('param', 1), ('P', ('param', 1)))) is not None
                    if not (good and src_ok):
                        ok = False
                        detail.append('returns %s' % e.short(r, 240))
                    else:
                        orders.add(order_of(t[1]))
                info['encode'].extend(sorted(orders))
                if rep is not None:
                    rep.ob('pair:%s:encode:%s' % (role, 'ref' if src.startswith('&') else 'val'), 'PAIR-RAW', it, facts.bodies[it]['span'],
                           'From<%s> for %s packs all %d bytes of the stored text with a fixed byte order' % (src.split('::')[-1], imp['self_ty'], width),
                           ok and len(orders) == 1, detail='\n'.join(detail) or 'byte orders %s' % sorted(orders), how='byte order %s' % sorted(orders))
        if rep is not None:
            agree = info['decode'] is not None and info['encode'] and all(o == info['decode'] for o in info['encode'])
            rep.ob('pair:%s:agree' % role, 'PAIR-RAW', '-', '-', '%s: integer encoders and from_raw_unchecked use the same byte order (inverse packings)' % role, agree,
                   detail='decode=%s encode=%s' % (info['decode'], info['encode']), how='all %s' % info['decode'])
        out[role] = info
    if rep is not None:
        rep.floor('raw decoders (from_raw_unchecked)', n_dec, 4)
        rep.floor('raw encoders (From<subtag> for integer)', n_enc, 6)
    return out
