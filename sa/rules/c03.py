"""C03 — Locale parsing accepts all well-formed locale ids and never silently drops input (DESIGN §4.3)."""
from .. import px as pxm, terms, shape as sh, models
from ..shape import Shape
from . import common, validators, entry, parserules, c13, c02, mutators as mu, c10

LI, LO = 'unic_langid_impl', 'unic_locale_impl'


def byte_function(prog, fn):
    """BYTE engine on a fn(u8) -> R: exact byte set per abstract result; -> (list of (mask, result term), problems)"""
    e = pxm.PX(prog)
    st = pxm.State()
    subj = ('B1', st.uid())
    st.shapes[subj] = Shape.product(1, [sh.FULL])
    e.new_frame(st)
    outs = e._run(st, fn, [('byte', subj, 0, ())], 1)
    res = []
    for s2, rv in outs:
        shp = s2.shapes.get(subj)
        m = 0
        for c in (shp.cells.get(1, []) if shp else []):
            m |= c[0]
        res.append((m, rv, s2))
    return e, res


def extension_type_bytes(prog, rep):
    fns = [n for n, b in prog.bodies.items() if n.startswith(LO + '::') and b['kind'] == 'AssocFn' and b.get('impl') and b['impl']['self_ty'].split('::')[-1] == 'ExtensionType'
           and b['sig'] and b['sig']['inputs'] == ['u8'] and not b['impl']['trait']]
    rep.floor('ExtensionType::from_byte', len(fns), 1)
    want = {'Unicode': sh.mask_of(b'uU'), 'Transform': sh.mask_of(b'tT'), 'Private': sh.mask_of(b'xX')}
    for fn in fns:
        b = prog.bodies[fn]
        bad = []
        try:
            e, res = byte_function(prog, fn)
        except Exception as ex:
            rep.ob('byte:from_byte', 'BYTE-EXT', fn, b['span'], 'from_byte analysed', False, 'INCONCLUSIVE(%s)' % ex)
            continue
        got = {}
        cover = 0
        for m, rv, s2 in res:
            if rv == ('PANIC',):
                bad.append('a panic is reachable for bytes %s' % sh.describe_mask(m))
                continue
            cover |= m
            if rv[0] == 'adt' and rv[2] == 'Ok' and rv[3][0][0] == 'adt':
                v = rv[3][0]
                got[v[2]] = got.get(v[2], 0) | m
            elif rv[0] == 'adt' and rv[2] == 'Err':
                got['Err'] = got.get('Err', 0) | m
            else:
                bad.append('result not understood: %s' % e.short(rv, 80))
        if cover != sh.FULL:
            bad.append('bytes %s not decided' % sh.describe_mask(sh.FULL & ~cover))
        for k, m in want.items():
            if got.get(k, 0) != m:
                bad.append('%s is returned for %s, expected exactly %s' % (k, sh.describe_mask(got.get(k, 0)), sh.describe_mask(m)))
        other = sh.ALNUM & ~(want['Unicode'] | want['Transform'] | want['Private'])
        if got.get('Other', 0) & ~sh.ALNUM:
            bad.append('a non-alphanumeric byte %s is classified as an extension singleton' % sh.describe_mask(got.get('Other', 0) & ~sh.ALNUM))
        if got.get('Err', 0) & (want['Unicode'] | want['Transform'] | want['Private']):
            bad.append('u/t/x rejected')
        if (sh.FULL & ~sh.ALNUM) & ~got.get('Err', 0):
            bad.append('non-alphanumeric bytes %s are not rejected' % sh.describe_mask((sh.FULL & ~sh.ALNUM) & ~got.get('Err', 0)))
        rep.ob('byte:from_byte', 'BYTE-EXT', fn, b['span'], "ExtensionType::from_byte: u/U, t/T, x/X select the three extensions, other alphanumerics are 'other', everything else is an error",
               not bad, detail='\n'.join(bad[:4]), how='all 256 bytes decided: %s' % {k: sh.describe_mask(v) for k, v in got.items()})


def run(tier, replay=None):
    rep = common.new_report('C03', tier, 'other')
    prog = common.program('K0')
    rep.count('configuration', 'K0 (%d bodies)' % len(prog.bodies))
    results, found = validators.run_all(prog, rep)
    rep.floor('validators (4 subtag validators; the 9 extension helpers where they exist as stand-alone functions)', len(results), 4)
    extension_type_bytes(prog, rep)
    core = entry.core_parser(prog)
    disp = entry.find_method(prog, LO, 'ExtensionsMap', 'try_from_iter')
    nsep = entry.check_separators(prog, rep, [('parse_locale', f, set(core) | set(disp)) for f in entry.find_fn(prog, LO, 'parse_locale')] +
                                  [('ExtensionsMap::from_bytes', f, set(disp)) for f in entry.find_method(prog, LO, 'ExtensionsMap', 'from_bytes')])
    rep.floor('split predicates analysed', nsep, 2)
    rows = 0
    for which in ('core', 'dispatch', 'unicode', 'transform', 'private'):
        tc = parserules.check(prog, rep, which)
        if tc is not None:
            rows += len(tc.rows_hit)
            rep.count('%s parser: steps / (head,state) pairs / rows exercised' % which, '%d / %d / %d' % (tc.nsteps, len(tc.pairs), len(tc.rows_hit)))
    rep.floor('specification table rows exercised', rows, 60)
    c02.disjoint_classes(rep)
    c13.wiring(prog, rep)
    allinv = mu.invariant_fields(prog.facts)
    n = 0
    for fn, ty in mu.constructors(prog):
        if 'try_from_iter' in fn or fn in core:
            n += mu.check_constructor(prog, fn, ty, allinv, rep, c10.EXEMPT_CTORS)
    rep.floor('parser result typestate', n, 3)
    c02.fromstr_delegation(prog, rep, LO, 'Locale')
    from . import c04
    c04.canonicalize_shape(prog, rep, only='unic_locale_impl')
    rep.explanation = ('Locale::from_bytes = core parser (allow_extension=true) then the extension dispatcher on the same token stream.  Decided: every validator (4 subtag types, key/type/attribute, '
                       'tkey/tvalue, private tag, the boolean pre-checks) accepts exactly its production with the specified normalisation; ExtensionType::from_byte for all 256 bytes; the split '
                       'predicates are exactly {-,_}; and for each of the five token-stream functions the transition table extracted from MIR (exact token shapes per path) equals the specification '
                       'table A.1-A.5 in every reachable (implementation state, specification state) pair: which class is consumed into which slot through which normalisation, which class ends the '
                       'part and is left to the caller, which is rejected; no consumed subtag is dropped, no parsed value is overwritten (repeated singleton, second tlang), a pending key is flushed '
                       'exactly when the next key / a singleton / the end arrives, singletons end every sub-parser state. The composition of the five tables into the locale grammar is the paper '
                       'argument of DESIGN Appendix A; the "either" zones of the property are "either" rows. Whole-input behaviour is not executed.')
    rep.assumptions = ['slice::split / Peekable contracts (std)', 'duplicate keyword keys / tfield keys are outside the property (BTreeMap::insert replaces)']
    return rep.finish()
