"""C18 — bundled lookup tables are exactly what the CLDR source data determine (DESIGN §4.18)."""
from . import common, tables, pair, likely


def run(tier, replay=None):
    rep = common.new_report('C18', tier, 'proof')
    prog = common.program('K1')
    rep.count('configuration', 'K1 (likelysubtags): %d static/const data items' % len(prog.facts.data))
    ct, exp, order, nrows = tables.likely(prog, rep)
    roles, sets, locales, nel, _ = tables.direction(prog, rep)
    # "the integer key order that the lookup's binary search uses": the integer encoders are the full-width packings inverse to the
    # tables' decoder, and every search in maximize is keyed by those integers, column by column, under the tables' sort order
    pair.raw_encoding(prog, rep)
    tmp = common.report.Report('C18', tier, 'proof', '')
    likely.check_maximize(prog, tmp, ct, order)
    nlook = 0
    for o in tmp.obls:
        if o.rule == 'CASC-LOOKUP':
            nlook += 1
            rep.add(o)
    rep.floor('table searches in maximize', nlook, 6)
    rep.count('table rows compared', nrows)
    rep.count('direction elements compared', nel)
    rep.count('CLDR layout locales read', len(locales))
    rep.count('byte order (from PAIR)', order)
    rep.floor('likely-subtags rows', nrows, 8219)
    rep.floor('direction elements', nel, 50)
    rep.floor('layout locales', len(locales), 700)
    rep.extra['exhaustive'] = True
    rep.explanation = ('Pure data comparison, exhaustive over every row: the initialisers of the statics are read from the type-checked HIR '
                       '(literal trees) and compared with an independent re-derivation from data/likelySubtags.json and the layout files '
                       'written in the checker (own identifier reader, own encoder); order, bijection, values, decode well-formedness, version.')
    rep.assumptions = ['the generator binaries are not re-run (that would be execution); the independent derivation replaces them']
    return rep.finish()
