"""C18 — bundled lookup tables are exactly what the CLDR source data determine (DESIGN §4.18)."""
from . import common, tables, pair, likely


def generator_byte_order(rep, order):
    """GEN-ENDIAN: the generators are not run (their output equalling the checked-in files is an execution fact, declined), but one structural
    necessary condition is read from their MIR in the all-features build, where the binaries are compiled: every explicit byte-order
    conversion they make uses the order the library packs and unpacks subtags with (PAIR-RAW) - a key or value printed in another order is
    a row the lookups can never find."""
    import re
    try:
        f = common.program('K3').facts
    except Exception as ex:
        rep.notes.append('generator binaries not analysed: %s' % str(ex)[:120])
        return
    want = {'little': 'le', 'big': 'be'}.get(order, 'le')
    n, bad = 0, []
    for cn, c in sorted(f.crates.items()):
        if not cn.startswith('generate_'):
            continue
        for name, b in sorted(c.bodies.items()):
            for blk in b['mir']['blocks']:
                t = blk['term']
                if t['k'] != 'call':
                    continue
                m = re.search(r'::(from|to)_(le|be|ne)_bytes$', t['r'] or t['f'] or '')
                if m:
                    n += 1
                    if m.group(2) != want:
                        bad.append('%s converts with %s_%s_bytes at %s; the library packs subtags %s-endian' % (name, m.group(1), m.group(2), t.get('sp'), order))
    if n or bad:
        rep.ob('gen:byte-order', 'GEN-ENDIAN', 'generate_*', '-', 'every explicit byte-order conversion in the generator binaries uses the byte order of the library', not bad,
               detail='\n'.join(bad[:4]), how='%d conversion sites in the generator binaries (all-features build)' % n)


def run(tier, replay=None):
    rep = common.new_report('C18', tier, 'proof')
    prog = common.program('K1')
    rep.count('configuration', 'K1 (likelysubtags): %d static/const data items' % len(prog.facts.data))
    ct, exp, order, nrows = tables.likely(prog, rep)
    roles, sets, locales, nel, _ = tables.direction(prog, rep)
    # "the integer key order that the lookup's binary search uses": the integer encoders are the full-width packings inverse to the
    # tables' decoder, and every search in maximize is keyed by those integers, column by column, under the tables' sort order
    pair.raw_encoding(prog, rep)
    tmp = common.report.Report('C18', tier, 'proof', '')
    likely.check_maximize(prog, tmp, ct, order)
    nlook = 0
    for o in tmp.obls:
        if o.rule == 'CASC-LOOKUP':
            nlook += 1
            rep.add(o)
    rep.floor('table searches in maximize', nlook, 6)
    generator_byte_order(rep, order)
    rep.count('table rows compared', nrows)
    rep.count('direction elements compared', nel)
    rep.count('CLDR layout locales read', len(locales))
    rep.count('byte order (from PAIR)', order)
    rep.floor('likely-subtags rows', nrows, 8219)
    rep.floor('direction elements', nel, 50)
    rep.floor('layout locales', len(locales), 700)
    rep.extra['exhaustive'] = True
    rep.explanation = ('Pure data comparison, exhaustive over every row: the initialisers of the statics are read from the type-checked HIR '
                       '(literal trees) and compared with an independent re-derivation from data/likelySubtags.json and the layout files '
                       'written in the checker (own identifier reader, own encoder); order, bijection, values, decode well-formedness, version.')
    rep.assumptions = ['the generator binaries are not re-run (that would be execution); the independent derivation replaces them']
    return rep.finish()
