"""C16 — compile-time macros equal run-time parsing (DESIGN §4.16, engine WIT §3.16).

A witness workspace (two crates that depend on /repo's facade crates by path, features `macros`) is generated outside /repo:
  ok/   one function per well-formed literal; it must compile, and the EXPANSION is read from its MIR (constants handed to the
        unchecked constructors, the extension string handed to `parse`) and compared with the canonical value computed by the
        checker's own reference canonicaliser (sa/refparse.py), encoded with the byte order PAIR established;
  bad/  one invocation per line with an ill-formed literal; the compiler must report an error whose primary span is on each
        such line and on no other.
Nothing is executed: the compiler type-checks and expands; the driver prints MIR."""
import glob
import json
import os
import random
import re
import shutil
import subprocess
import tempfile
from .. import facts as factsmod, refparse, px as pxm
from . import common, pair, c05

REPO = factsmod.REPO


def literals(seed, tier):
    rnd = random.Random(seed)
    langs = ['en', 'EN', 'de', 'fil', 'zh', 'abcde', 'abcdefgh', 'sr', 'Ja', 'und', 'UND', 'uNd']
    scripts = [None, 'Latn', 'latn', 'CYRL', 'hANS']
    regions = [None, 'US', 'us', '419', '001', 'gb']
    variants = [[], ['valencia'], ['1996'], ['nedis', 'macos'], ['macos', 'nedis', 'macos'], ['1ABC'], ['VALENCIA', 'fonipa']]
    ids = []
    for l in langs:
        for s in scripts:
            for r in regions:
                for v in variants:
                    parts = [l] + ([s] if s else []) + ([r] if r else []) + v
                    ids.append(parts)
    rnd.shuffle(ids)
    n = 140 if tier != 'thorough' else 900
    ids = ids[:n]
    langids = []
    for i, parts in enumerate(ids):
        sep = '-' if i % 3 else '_'
        if i % 7 == 0:
            s = ''.join(p + ('-' if j % 2 else '_') for j, p in enumerate(parts))[:-1]
        else:
            s = sep.join(parts)
        langids.append(s)
    exts = ['', '-u-ca-buddhist', '-u-foo-bar-ca-buddhist-nu-thai', '-u-kn-true', '-u-kn', '-u-bar-foo-bar', '-t-en-us-h0-hybrid', '-t-h0-hybrid-k0-dvorak', '-t-es-419',
            '-t-sr-cyrl-rs-ekavsk', '-x-foo-bar', '-x-a', '-x-zz-aa', '-u-ca-gregory-t-en-h0-hybrid-x-priv', '-t-h0-hybrid-u-ca-buddhist', '-U-CA-BUDDHIST', '_u_ca_buddhist',
            '-t-m0-true', '-t-k0-dvorak-x-u', '-u-nu-thai-ca-buddhist', '-t-k0-dvorak-h0-hybrid', '-u-ca-true-nu-latn', '-T-EN-H0-HYBRID-X-FOO', '-t-und-latn', '-u-attr1-attr2',
            '-t-de-h0-hybrid-u-hc-h12-x-1-2']
    locales = []
    base = langids[: (40 if tier != 'thorough' else 200)]
    for i, b in enumerate(base):
        for e in (exts if i < 6 else [exts[(i * 5 + k) % len(exts)] for k in range(3)]):
            locales.append(b + e)
    subt = {'lang': ['en', 'EN', 'fil', 'abcdefgh', 'und', 'UND'], 'script': ['Latn', 'latn', 'CYRL'], 'region': ['US', 'us', '419', '001'],
            'variant': ['valencia', 'VALENCIA', '1996', '1abc', 'macos123']}
    bad_langid = ['', 'e', 'en-', '-en', 'en--US', 'en-US-GB', 'en-Latn-Latn', 'en-1', 'en-toolongsubtag', 'en-US-u-ca-buddhist', 'en US', 'en-$$', '123', 'a1', 'en-valencia-US', 'en-12',
                  'abcd', 'en-Latn-US-Latn', 'en.US', 'en-u', 'toolonglanguage', 'en-US-', 'e1', 'en-valencia-Latn',
                  # surrounding / embedded white space, control and non-ASCII characters are never part of a subtag and never separators
                  ' en-US', 'en-US ', 'en-US\n', '\ten', 'en-US\u00a0', 'en\u0000', '\uff45\uff4e', 'en -US', 'en-\u00dcS', 'en-US\r\n']
    bad_locale = ['', 'e', 'en-u1', 'en-u-ca-buddhist-u-nu-thai', 'de-t-en-US-fra', 'en-u-ca-buddhist-toolongsubtag', 'en-t-h0-hybrid-$$', 'en-x-toolongprivate', 'en-US-GB', 'en-ux-foo',
                  'en-t-h0-hybrid-t-k0-dvorak', 'en-u-c1', 'en-t-h0', 'en-x-foo-$', 'en-!-foo', 'en-t-en-US-h0-hybrid-u-ca-buddhist-u-nu-thai', 'en-u-ca-buddhist-12', 'en-latn-latn-u-ca-buddhist',
                  ' en-u-ca-buddhist', 'en-u-ca-buddhist ', 'en-u-ca-buddhist\n', 'en-x-foo\u0000', 'en-u-ca-\u00e9t\u00e9']
    bad_sub = {'lang': ['e', 'abcd', 'e1', 'toolonglang', '', ' en', 'en ', 'en\n'], 'script': ['Lat', 'La1n', 'Latin', '', ' Latn', 'Latn '], 'region': ['U', '12', 'USA', '1234', 'u1', ' US', 'US\n'],
               'variant': ['abc', 'abcd', '1ab', 'toolongvariant', 'ab$de', ' macos', 'macos ']}
    return langids, locales, subt, bad_langid, bad_locale, bad_sub


def rust_str(s):
    out = ''
    for ch in s:
        if ch == '\\':
            out += '\\\\'
        elif ch == '"':
            out += '\\"'
        elif 0x20 <= ord(ch) < 0x7F:
            out += ch
        else:
            out += '\\u{%x}' % ord(ch)
    return '"' + out + '"'


def generate(root, seed, tier):
    langids, locales, subt, bad_langid, bad_locale, bad_sub = literals(seed, tier)
    os.makedirs(os.path.join(root, 'ok', 'src'))
    os.makedirs(os.path.join(root, 'bad', 'src'))
    with open(os.path.join(root, 'Cargo.toml'), 'w') as f:
        f.write('[workspace]\nmembers = ["ok", "bad"]\nresolver = "2"\n')
    dep = ('[package]\nname = "%s"\nversion = "0.0.0"\nedition = "2021"\n\n[dependencies]\n'
           'unic-langid = { path = "%s/unic-langid", features = ["macros"] }\nunic-locale = { path = "%s/unic-locale", features = ["macros"] }\n')
    for c in ('ok', 'bad'):
        with open(os.path.join(root, c, 'Cargo.toml'), 'w') as f:
            f.write(dep % ('wit_' + c, REPO, REPO))
    if os.path.exists(os.path.join(REPO, 'Cargo.lock')):      # untracked in the repository: a fresh checkout has none and cargo resolves from the offline cache
        shutil.copy(os.path.join(REPO, 'Cargo.lock'), os.path.join(root, 'Cargo.lock'))
    wit = []          # (fn name, macro, literal, line)
    lines = ['#![allow(unused, clippy::all)]', 'use unic_langid::{lang, langid, langid_slice, langids, region, script, variant, LanguageIdentifier};', 'use unic_locale::{locale, locales, Locale};', '']

    def add(kind, lit, ret, expr):
        name = 'w%04d' % len(wit)
        lines.append('pub fn %s() -> %s { %s }' % (name, ret, expr))
        wit.append((name, kind, lit, len(lines)))
    ok_l, ok_loc = [], []
    for s in langids:
        try:
            if refparse.parse_langid(s) is not None:
                ok_l.append(s)
        except refparse.Either:
            pass
    for s in locales:
        try:
            if refparse.parse_locale(s) is not None:
                ok_loc.append(s)
        except refparse.Either:
            pass
    for s in ok_l:
        add('langid', s, 'LanguageIdentifier', 'langid!(%s)' % rust_str(s))
    for s in ok_loc:
        add('locale', s, 'Locale', 'locale!(%s)' % rust_str(s))
    for k, ret in (('lang', 'unic_langid::subtags::Language'), ('script', 'unic_langid::subtags::Script'), ('region', 'unic_langid::subtags::Region'), ('variant', 'unic_langid::subtags::Variant')):
        for s in subt[k]:
            add(k, s, ret, '%s!(%s)' % (k, rust_str(s)))
    # list macros: groups of three
    for i in range(0, min(len(ok_l), 30), 3):
        grp = ok_l[i:i + 3]
        # both arms of the list macros (with and without a trailing comma), each at its documented type
        tc = ',' if (i // 3) % 2 else ''
        add('langids', grp, 'Vec<LanguageIdentifier>', 'let v: Vec<LanguageIdentifier> = langids![%s%s]; v' % (', '.join(rust_str(x) for x in grp), tc))
        add('langid_slice', grp, 'usize', 'let s: &[LanguageIdentifier] = langid_slice![%s%s]; s.len()' % (', '.join(rust_str(x) for x in grp), tc))
    for i in range(0, min(len(ok_loc), 18), 3):
        grp = ok_loc[i:i + 3]
        tc = ',' if (i // 3) % 2 else ''
        add('locales', grp, 'Vec<Locale>', 'let v: Vec<Locale> = locales![%s%s]; v' % (', '.join(rust_str(x) for x in grp), tc))
    with open(os.path.join(root, 'ok', 'src', 'lib.rs'), 'w') as f:
        f.write('\n'.join(lines) + '\n')
    # ---- ill-formed: one invocation per line
    blines = ['#![allow(unused)]', 'use unic_langid::{lang, langid, langids, region, script, variant};', 'use unic_locale::{locale, locales};', 'pub fn all() {']
    bad = []
    for s in bad_langid:
        try:
            if refparse.parse_langid(s) is None:
                blines.append('    let _ = langid!(%s);' % rust_str(s))
                bad.append(('langid', s, len(blines)))
        except refparse.Either:
            pass
    for s in bad_locale:
        try:
            if refparse.parse_locale(s) is None:
                blines.append('    let _ = locale!(%s);' % rust_str(s))
                bad.append(('locale', s, len(blines)))
        except refparse.Either:
            pass
    for k, lst in bad_sub.items():
        for s in lst:
            blines.append('    let _ = %s!(%s);' % (k, rust_str(s)))
            bad.append((k, s, len(blines)))
    for s in bad_langid[:6]:
        if refparse.parse_langid(s) is None:
            blines.append('    let _ = langids!["en", %s];' % rust_str(s))
            bad.append(('langids', s, len(blines)))
    # control lines: well-formed invocations interleaved must NOT be reported
    good_lines = []
    for s in ('en-US', 'de-Latn-DE-1996'):
        blines.append('    let _ = langid!(%s);' % rust_str(s))
        good_lines.append(len(blines))
    blines.append('}')
    with open(os.path.join(root, 'bad', 'src', 'lib.rs'), 'w') as f:
        f.write('\n'.join(blines) + '\n')
    return wit, bad, good_lines


def cargo_check(root, pkg, outdir=None, with_driver=False):
    tgt = os.path.join(root, 'target')
    env = dict(os.environ, CARGO_NET_OFFLINE='true', CARGO_TARGET_DIR=tgt)
    env.pop('RUSTC_WRAPPER', None)
    if with_driver:
        factsmod.ensure_driver()
        env.update({'LD_LIBRARY_PATH': factsmod.sysroot() + '/lib', 'RUSTFLAGS': '-Zmir-opt-level=0 -Awarnings', 'FACTGEN_OUT': outdir, 'RUSTC_WORKSPACE_WRAPPER': factsmod.DRIVER})
    else:
        env['RUSTFLAGS'] = '-Zmir-opt-level=0 -Awarnings'
        env.pop('RUSTC_WORKSPACE_WRAPPER', None)
    r = subprocess.run(['cargo', '+nightly', 'check', '--offline', '-p', pkg, '--message-format=json'], cwd=root, env=env, capture_output=True, text=True)
    msgs = []
    for line in r.stdout.splitlines():
        try:
            j = json.loads(line)
        except ValueError:
            continue
        if j.get('reason') == 'compiler-message' and j['message'].get('level') == 'error':
            sp = [s for s in j['message'].get('spans', []) if s.get('is_primary')] or j['message'].get('spans', [])
            # a proc-macro diagnostic has its primary span inside the macro definition; the invocation is the outermost call
            # site of its expansion backtrace (what rustc prints as "in this macro invocation")
            loc = sp[0] if sp else None
            while loc is not None and loc.get('expansion') and loc['expansion'].get('span'):
                loc = loc['expansion']['span']
            children = ' / '.join(c.get('message', '')[:100] for c in j['message'].get('children', [])[:2])
            msgs.append((j.get('target', {}).get('name'), loc['file_name'] if loc else None, loc['line_start'] if loc else None, (j['message'].get('message', '') + ' ' + children)[:220]))
    return r.returncode, msgs, r.stderr[-2000:]


def calls_of(body):
    out = []
    for blk in body['mir']['blocks']:
        if blk['cleanup']:
            continue
        t = blk['term']
        if t['k'] == 'call':
            out.append(t)
    return out


def const_int(o):
    c = o.get('const') if isinstance(o, dict) else None
    if c and 'int' in c:
        return int(c['int'])
    return None


def const_str(o):
    c = o.get('const') if isinstance(o, dict) else None
    if c and 'slice' in c:
        return bytes(c['slice']).decode('latin1')
    return None


def local_consts(body):
    """locals assigned exactly once, from a constant (MIR at opt-level 0 routes literals through temporaries)"""
    defs = {}
    for blk in body['mir']['blocks']:
        for st in blk['stmts']:
            if st['k'] == 'assign' and not st['lhs']['p']:
                defs.setdefault(st['lhs']['l'], []).append(st['rv'])
    out = {}
    for l, rvs in defs.items():
        if len(rvs) == 1 and rvs[0]['k'] in ('use', 'cast') and 'const' in rvs[0]['o']:
            out[l] = rvs[0]['o']
    # copy / move / reborrow (`&*_x`) propagation, to a fixpoint
    for _ in range(4):
        for l, rvs in defs.items():
            if len(rvs) != 1 or l in out:
                continue
            rv = rvs[0]
            pl = None
            if rv['k'] in ('use', 'cast'):
                pl = rv['o'].get('move') or rv['o'].get('copy')
                if pl and pl['p']:
                    pl = None
            elif rv['k'] in ('ref', 'rawptr'):
                pl = rv['p'] if rv['p']['p'] in ([], ['*']) else None
            if pl and pl['l'] in out:
                out[l] = out[pl['l']]
    return out


def resolve(o, consts):
    if isinstance(o, dict) and 'const' not in o:
        pl = o.get('move') or o.get('copy')
        if pl and not pl['p'] and pl['l'] in consts:
            return consts[pl['l']]
    return o


def option_tag(body, o):
    """'None' / 'Some' when the operand is (a move of) a local built by one Option aggregate; otherwise None"""
    defs = {}
    for blk in body['mir']['blocks']:
        for st in blk['stmts']:
            if st['k'] == 'assign' and not st['lhs']['p']:
                defs.setdefault(st['lhs']['l'], []).append(st['rv'])
    for _ in range(8):
        pl = (o.get('move') or o.get('copy')) if isinstance(o, dict) else None
        if not pl or pl['p'] or len(defs.get(pl['l'], [])) != 1:
            return None
        rv = defs[pl['l']][0]
        if rv['k'] == 'agg' and rv['kind'].get('agg') == 'adt' and str(rv['kind'].get('def', '')).endswith('option::Option'):
            return rv['kind'].get('vname')
        if rv['k'] in ('use', 'cast'):
            o = rv['o']
            continue
        return None
    return None


def expansion(body):
    """what a witness function builds: dict of raw-constructor arguments in call order"""
    ex = {'Language': [], 'Script': [], 'Region': [], 'Variant': [], 'default_lang': 0, 'ext': [], 'ctor': [], 'other': []}
    consts = local_consts(body)
    for t in calls_of(body):
        t = dict(t, args=[resolve(a, consts) for a in t['args']])
        name = t['r'] or t['f']
        m = re.search(r'(?:^|::)(Language|Script|Region|Variant)::from_raw_unchecked$', name)
        if m:
            ex[m.group(1)].append(const_int(t['args'][0]))
            continue
        if re.search(r'Language as std::default::Default>::default$', name) or re.search(r'(?:^|::)Language::default$', name):
            ex['default_lang'] += 1
            continue
        if name.endswith('str::<impl str>::parse'):
            ex['ext'].append(const_str(t['args'][0]))
            continue
        if name.endswith('::from_raw_parts_unchecked'):
            ex['ctor'].append(name.split('::')[-2])
            # how "no variants" / "some variants" is represented in the value handed to the unchecked constructor (argument 3)
            ex.setdefault('variants_repr', []).append(option_tag(body, t['args'][3]) if len(t['args']) > 3 else None)
            continue
        ex['other'].append(name)
    return ex


def expected(kind, lit, order):
    if kind in ('langid',):
        li = refparse.parse_langid(lit)
        ext = None
    elif kind == 'locale':
        li, ext = refparse.parse_locale(lit)
    else:
        return None
    lang, script, region, variants = li
    return {'Language': [refparse.enc(lang, 8, order)] if lang else [], 'default_lang': 0 if lang else 1, 'Script': [refparse.enc(script, 4, order)] if script else [],
            'Region': [refparse.enc(region, 4, order)] if region else [], 'Variant': [refparse.enc(v, 8, order) for v in variants], 'ext': ext}


def witness_obligations(rep, tier, prog):
    """the witness leg of C16: generated macro invocations are type-checked, their expansions read from MIR and compared with the reference"""
    seed = int(os.environ.get('VERIF_SEED', '0') or 0)
    enc = pair.raw_encoding(prog, rep)
    orders = set(i['decode'] for i in enc.values())
    order = orders.pop() if len(orders) == 1 and None not in orders else 'little'
    os.makedirs(factsmod.CACHE, exist_ok=True)
    root = tempfile.mkdtemp(prefix='wit-', dir=factsmod.CACHE)
    try:
        wit, bad, good_lines = generate(root, seed, tier)
        outdir = os.path.join(root, 'facts')
        os.makedirs(outdir)
        rc, msgs, err = cargo_check(root, 'wit_ok', outdir, with_driver=True)
        okfile = os.path.join(root, 'ok', 'src', 'lib.rs')
        byline = {w[3]: w for w in wit}
        failed_lines = {}
        for tgtname, fn, line, msg in msgs:
            if fn and fn.endswith('ok/src/lib.rs') and line in byline:
                failed_lines.setdefault(line, msg)
            elif fn is None or not fn.endswith('ok/src/lib.rs'):
                failed_lines.setdefault(-1, '%s: %s' % (fn, msg))
        if rc != 0 and not failed_lines:
            # a build that fails without any diagnostic may be the machine's fault (a compiler process killed under memory pressure): once more
            import time as _t
            _t.sleep(2)
            rc, msgs, err = cargo_check(root, 'wit_ok', outdir, with_driver=True)
            for tgtname, fn, line, msg in msgs:
                if fn and fn.endswith('ok/src/lib.rs') and line in byline:
                    failed_lines.setdefault(line, msg)
                elif fn is None or not fn.endswith('ok/src/lib.rs'):
                    failed_lines.setdefault(-1, '%s: %s' % (fn, msg))
        if rc != 0 and not failed_lines:
            # fail closed: the witness workspace (a user crate depending on the facade crates with their `macros` feature) does not build and
            # no diagnostic points into it - the macros are not exported, a manifest is broken ...: no well-formed invocation compiles
            failed_lines[-1] = 'the witness crate does not build: %s' % ' '.join(str(err).split())[-400:]
        # every well-formed invocation compiles
        bykind = {}
        for line, msg in sorted(failed_lines.items()):
            w = byline.get(line)
            k = (w[1] if w else 'build')
            bykind.setdefault(k, []).append('%s!(%r): %s' % (w[1], w[2], msg) if w else msg)
        kinds = sorted(set(w[1] for w in wit))
        for k in kinds + (['build'] if 'build' in bykind else []):
            n = len([w for w in wit if w[1] == k])
            rep.ob('wit:compiles:%s' % k, 'WIT-COMPILES', '%s!' % k, 'witness ok/src/lib.rs', 'every well-formed %s! invocation of the witness set compiles' % k, k not in bykind,
                   detail='\n'.join(bykind.get(k, [])[:4]), how='%d invocations' % n, witness=(bykind[k][0].split(':')[0] if k in bykind else None))
        # expansions: only available when the crate type-checked; on failure re-check a copy without the failing lines
        facts_files = glob.glob(os.path.join(outdir, 'wit_ok*.json'))
        if not facts_files and failed_lines:
            src = open(okfile).read().splitlines()
            for line in failed_lines:
                if line > 0:
                    src[line - 1] = '// removed: does not compile'
            open(okfile, 'w').write('\n'.join(src) + '\n')
            rc, msgs2, err = cargo_check(root, 'wit_ok', outdir, with_driver=True)
            facts_files = glob.glob(os.path.join(outdir, 'wit_ok*.json'))
        nexp = 0
        mism = {}
        if not facts_files:
            rep.ob('wit:expansion:facts', 'WIT-EXPANSION', '-', '-', 'expansions of the witness crate available', False, 'ANALYSIS: no MIR for the witness crate:\n' + err[-600:])
        else:
            j = json.load(open(facts_files[0]))
            bodies = j['bodies']
            for name, kind, lit, line in wit:
                if line in failed_lines:
                    continue
                b = bodies.get('wit_ok::' + name)
                if b is None:
                    mism.setdefault(kind, []).append('%s!(%r): no body' % (kind, lit))
                    continue
                ex = expansion(b)
                if kind in ('langid', 'locale'):
                    want = expected(kind, lit, order)
                    nexp += 1
                    probs = []
                    for f in ('Language', 'Script', 'Region', 'Variant'):
                        if ex[f] != want[f]:
                            probs.append('%s %s != expected %s' % (f, ex[f], want[f]))
                    if (ex['default_lang'] > 0) != (want['default_lang'] > 0):
                        probs.append('empty language %s' % ('not ' if want['default_lang'] else 'unexpectedly ') + 'built with Language::default()')
                    # "no variants" is None, never Some(empty list): the unchecked constructor stores what it is given
                    vr = ex.get('variants_repr') or [None]
                    if vr[0] != ('Some' if want['Variant'] else 'None'):
                        probs.append('variants are handed to the unchecked constructor as %s, the canonical representation is %s' % (
                            vr[0] or 'an expression the reader does not resolve', 'Some(sorted list)' if want['Variant'] else 'None'))
                    if kind == 'locale':
                        if ex['ext'] != [want['ext']]:
                            probs.append('extension string %r != expected canonical %r' % (ex['ext'], want['ext']))
                        if ex['ctor'] != ['Locale']:
                            probs.append('constructor %s' % ex['ctor'])
                    elif ex['ctor'] != ['LanguageIdentifier']:
                        probs.append('constructor %s' % ex['ctor'])
                    if probs:
                        mism.setdefault(kind, []).append('%s!(%r): %s' % (kind, lit, '; '.join(probs)))
                elif kind in ('lang', 'script', 'region', 'variant'):
                    nexp += 1
                    T = {'lang': 'Language', 'script': 'Script', 'region': 'Region', 'variant': 'Variant'}[kind]
                    canon = {'lang': lit.lower(), 'script': lit[:1].upper() + lit[1:].lower(), 'region': lit.upper(), 'variant': lit.lower()}[kind]
                    if kind == 'lang' and canon == 'und':
                        ok = ex['default_lang'] == 1 and not ex['Language']
                    else:
                        ok = ex[T] == [refparse.enc(canon, 8 if kind in ('lang', 'variant') else 4, order)]
                    if not ok:
                        mism.setdefault(kind, []).append('%s!(%r): expansion %s' % (kind, lit, {k: v for k, v in ex.items() if v}))
                elif kind in ('langids', 'locales', 'langid_slice'):
                    nexp += 1
                    T = 'Locale' if kind == 'locales' else 'LanguageIdentifier'
                    want_all = [expected('locale' if kind == 'locales' else 'langid', x, order) for x in lit]
                    if ex['ctor'] != [T] * len(lit):
                        mism.setdefault(kind, []).append('%s!%r: %d elements built, %d given' % (kind, lit, len(ex['ctor']), len(lit)))
                    else:
                        cat = {f: [v for w in want_all for v in w[f]] for f in ('Language', 'Script', 'Region', 'Variant')}
                        for f in cat:
                            if ex[f] != cat[f]:
                                mism.setdefault(kind, []).append('%s!%r: %s sequence %s != %s' % (kind, lit, f, ex[f], cat[f]))
                                break
            for k in kinds:
                rep.ob('wit:expansion:%s' % k, 'WIT-EXPANSION', '%s!' % k, 'witness ok/src/lib.rs',
                       'the expansion of every %s! witness (constants read from its MIR) encodes the canonical value of the literal' % k, k not in mism,
                       detail='\n'.join(mism.get(k, [])[:4]), how='%d witnesses' % len([w for w in wit if w[1] == k]), witness=(mism[k][0].split(':')[0] if k in mism else None))
        # ---- ill-formed literals: an error at each line, and only there
        rc2, msgs_b, err2 = cargo_check(root, 'wit_bad')
        err_lines = set(line for tgtname, fn, line, msg in msgs_b if fn and fn.endswith('bad/src/lib.rs'))
        stray = [(fn, line, msg) for tgtname, fn, line, msg in msgs_b if not (fn and fn.endswith('bad/src/lib.rs'))]
        missing = [(k, s) for k, s, line in bad if line not in err_lines]
        extra = [l for l in good_lines if l in err_lines]
        bykind_b = {}
        for k, s in missing:
            bykind_b.setdefault(k, []).append('%s!(%r) compiles although the literal is ill-formed' % (k, s))
        for k in sorted(set(k for k, s, l in bad)):
            rep.ob('wit:rejects:%s' % k, 'WIT-REJECTS', '%s!' % k, 'witness bad/src/lib.rs', 'every ill-formed %s! literal of the witness set is a compile-time error at its own invocation' % k,
                   k not in bykind_b, detail='\n'.join(bykind_b.get(k, [])[:4]), how='%d invocations' % len([1 for kk, s, l in bad if kk == k]),
                   witness=(bykind_b[k][0].split(' compiles')[0] if k in bykind_b else None))
        rep.ob('wit:rejects:located', 'WIT-REJECTS', '-', 'witness bad/src/lib.rs', 'errors are reported at the ill-formed invocations only (well-formed control lines are not reported; no error elsewhere)',
               not extra and not stray and rc2 != 0, detail='control lines reported: %s; errors outside the witness file: %s' % (extra, stray[:2]))
        rep.extra['programs'] = len(wit) + len(bad)
        rep.extra['disagreements_checked'] = nexp + len(bad)
        rep.extra['witness_samples'] = [{'macro': w[1], 'literal': w[2]} for w in wit[:8]] + [{'macro': k, 'ill_formed_literal': s} for k, s, l in bad[:8]]
        rep.count('well-formed invocations / expansions compared', '%d / %d' % (len(wit), nexp))
        rep.count('ill-formed invocations', len(bad))
        rep.floor('well-formed witnesses', len(wit), 150)
        rep.floor('ill-formed witnesses', len(bad), 40)
    finally:
        shutil.rmtree(root, ignore_errors=True)


def witness_family(rep, tier='quick'):
    """the same witness obligations as a family of ANOTHER property (values built by the macros are values of that property's domain): computed once
    per tree and cached next to the fact dumps, then replayed into `rep`"""
    import json
    from .. import report as reportmod
    seed = int(os.environ.get('VERIF_SEED', '0') or 0)
    th = factsmod.tree_hash()
    cf = os.path.join(factsmod.CACHE, th, 'witness-%s-%d.json' % ('thorough' if tier == 'thorough' else 'quick', seed))
    rows = None
    if os.path.exists(cf):
        try:
            rows = json.load(open(cf))
        except Exception:
            rows = None
    if rows is None:
        tmp = common.new_report('C16', tier, 'translation_validation')
        witness_obligations(tmp, tier, common.program('K0'))
        rows = [dict(key=o.key, rule=o.rule, fn=o.fn, site=o.site, what=o.what, ok=o.ok, detail=o.detail, how=o.how, witness=o.witness) for o in tmp.obls]
        # (a build failure without a diagnostic is reported but not cached: the next check of the same tree tries again)
        if not any('the witness crate does not build' in str(r.get('detail', '')) for r in rows):
            os.makedirs(os.path.dirname(cf), exist_ok=True)
            with open(cf + '.tmp', 'w') as f:
                json.dump(rows, f)
            os.replace(cf + '.tmp', cf)
    for r in rows:
        rep.ob(r['key'], r['rule'], r['fn'], r['site'], r['what'], r['ok'], detail=r['detail'], how=r['how'], witness=r['witness'])
    return len(rows)


def run(tier, replay=None):
    rep = common.new_report('C16', tier, 'translation_validation')
    seed = int(os.environ.get('VERIF_SEED', '0') or 0)
    prog = common.program('K0')
    witness_obligations(rep, tier, prog)
    # the macro crates link their own build of the impl crates (host dependency, no optional feature) while the user's run-time parser is
    # built with whatever features the user enables: "equal to parsing at run time" needs the two builds to be the same code
    from .. import diff
    from . import c20
    fb, ff = factsmod.load('K0'), factsmod.load('K3')
    ncmp = 0
    for cr in ('unic_langid_impl', 'unic_locale_impl'):
        if cr not in fb.crates or cr not in ff.crates:
            rep.ob('diff:%s:present' % cr, 'DIFF-ANCHOR', cr, '-', 'crate %s present in K0 and K3' % cr, False, 'ANCHOR-MISSING: crate not built in one of the configurations')
            continue
        res = diff.compare_crate(fb.crates[cr], ff.crates[cr], c20.EXCEPTIONS)
        ncmp += res['shared']
        rep.ob('diff:%s:macro-build-vs-all-features' % cr, 'DIFF-BODY', cr, '-',
               '%s: every body of the feature-less build (the one the proc-macro crates link) has identical MIR in the all-features build (the run-time side)' % cr,
               not res['changed'] and not res['removed'],
               detail='\n'.join(['%s [%s] differs at %s' % (n, sp, d) for n, d, sp in res['changed'][:5]] + ['%s removed by the feature' % n for n in res['removed'][:5]]),
               how='%d shared bodies identical' % (res['shared'] - len(res['changed']) - len(res['excepted'])), witness=res['changed'][0][0] if res['changed'] else None)
    rep.floor('impl-crate bodies compared between the macro-side and run-time-side builds', ncmp, 200)
    # the run-time `parse().expect()` that locale! emits: the canonical extension string re-parses (spec round trip, shared with C05)
    # decided on the code, not only on the specification tables: the Display automata and the parser tables extracted from the MIR
    c05.roundtrip_obligations(prog, rep)
    # the proc macros parse their literal with FromStr of the matching type: that route must be the parser of C02/C03 on the whole, unaltered literal
    from . import c02, c13, subtag_api, validators
    c13.wiring(prog, rep)
    c02.fromstr_delegation(prog, rep, 'unic_langid_impl', 'LanguageIdentifier')
    c02.fromstr_delegation(prog, rep, 'unic_locale_impl', 'Locale')
    validators.run_all(prog, rep, roles_wanted={'Language', 'Script', 'Region', 'Variant'})
    subtag_api.run(prog, rep)
    # the macros reach a user only through the `macros` feature of the facade crates (manifest wiring, no build)
    from .. import features
    features.check(rep)
    rep.explanation = ('Translation validation on a generated witness set: each well-formed invocation must type-check and its expansion, read from the MIR of the witness crate, must carry exactly the '
                       'integer forms / extension string of the canonical value that the checker\'s own reference canonicaliser computes for the literal; each ill-formed literal must be a compile '
                       'error located at its invocation. locale! defers the extensions to a run-time parse of the canonical string it emits; that this parse succeeds and gives the same extensions is '
                       'the round-trip clause (printer sentences through the parser tables), and that run-time parsing equals the reference is C02/C03.')
    rep.assumptions = ['only the generated witness programs are decided (VERIF_SEED permutes the selection)', 'the reference canonicaliser sa/refparse.py is a second, independent writing of the grammar']
    return rep.finish()
