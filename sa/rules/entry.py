"""Entry-point wiring shared by C02, C03, C04, C09, C13: which core parser each public entry reaches, with which
constant flag, on which iterator; the separator byte set of every split closure (BYTE); error mapping; canonicalize."""
import re
from .. import px as pxm, terms, models, shape as sh

SEP_EXPECTED = sh.mask_of([0x2D, 0x5F])


def norm_uids(v, depth=0):
    if not isinstance(v, tuple) or depth > 40:
        return v
    if v and v[0] == 'lv' and len(v) >= 3:
        return ('lv', v[1], '#')
    if v and v[0] == 'mut' and len(v) >= 4:
        return ('mut', norm_uids(v[1], depth + 1), v[2], '#') + tuple(norm_uids(x, depth + 1) for x in v[4:])
    if v and v[0] == 'call' and len(v) >= 4 and isinstance(v[3], int):
        return ('call', v[1], norm_uids(v[2], depth + 1), '#') + tuple(norm_uids(x, depth + 1) for x in v[4:])
    if v and v[0] == 'e' and len(v) == 3:
        return ('e', '#', v[2])
    return tuple(norm_uids(x, depth + 1) for x in v)


def core_parser(prog):
    """the shared language-identifier token parser: the function with a (&mut Peekable<..>, bool) signature in unic_langid_impl::parser"""
    out = []
    for n, b in prog.bodies.items():
        s = b.get('sig')
        if n.startswith('unic_langid_impl::') and b['kind'] == 'Fn' and s and len(s['inputs']) == 2 and s['inputs'][1] == 'bool' \
                and s['inputs'][0].startswith('&mut std::iter::Peekable<') and 'LanguageIdentifier' in s['output']:
            out.append(n)
    return out


def find_method(prog, crate, self_ty, name, trait=''):
    out = []
    for n, b in prog.bodies.items():
        if not n.startswith(crate + '::') or not b.get('impl') or b['kind'] != 'AssocFn':
            continue
        im = b['impl']
        if im['self_ty'].split('::')[-1] != self_ty or (trait and trait not in im['trait']) or (not trait and im['trait']):
            continue
        if n.endswith('::' + name):
            out.append(n)
    return sorted(out)


def find_fn(prog, crate, name):
    return sorted(n for n, b in prog.bodies.items() if n.startswith(crate + '::') and b['kind'] == 'Fn' and n.endswith('::' + name))


def split_closures(prog, e, seg):
    """[(closure term, input term)] of slice::split calls on a path"""
    out = []
    for ev in seg.state.events:
        if ev[0] == 'call' and re.search(r'slice::<impl \[T\]>::split$', ev[1]) and len(ev[2]) == 2:
            out.append((ev[2][1], ev[2][0], ev))
    return out


def check_separators(prog, rep, entries):
    """BYTE: every split predicate used by a parsing entry point accepts exactly '-' and '_'"""
    seen = {}
    for label, fn, opaque in entries:
        e = pxm.PX(prog, opaque=set(opaque))
        segs = e.explore(fn)
        found = False
        for s in segs:
            for clos, inp, ev in split_closures(prog, e, s):
                found = True
                if clos[0] not in ('closure', 'fn'):
                    seen[(label, 'not-a-closure')] = (None, ev[3], fn)
                    continue
                m = models.byte_closure(e, s.state, clos)
                seen[(label, clos[1])] = (m, ev[3], fn)
                ap = terms.access_path(inp)
                if not (ap and ap[0] == 1 and terms.strip_some(ap[1]) == ()):
                    seen[(label, clos[1] + ':input')] = ('input', ev[3], fn)
        if not found:
            seen[(label, 'none')] = ('missing', prog.bodies[fn]['span'], fn)
    n = 0
    for (label, c), (m, sp, fn) in sorted(seen.items()):
        if m == 'input':
            rep.ob('sep:%s:input' % label, 'BYTE-SEP', fn, sp, '%s splits its whole input' % label, False, 'the split is not applied to the input argument')
            continue
        if m == 'missing':
            rep.ob('sep:%s' % label, 'BYTE-SEP', fn, sp, '%s splits its input into subtags' % label, False, 'ANCHOR-MISSING: no slice::split on the input')
            continue
        n += 1
        ok = m == SEP_EXPECTED
        detail = ''
        if m is None:
            detail = 'INCONCLUSIVE(split predicate not understood)'
        elif not ok:
            extra = sh.bytes_of(m & ~SEP_EXPECTED)
            miss = sh.bytes_of(SEP_EXPECTED & ~m)
            detail = 'also splits on %s; does not split on %s' % ([chr(b) if 32 < b < 127 else hex(b) for b in extra[:6]], [chr(b) for b in miss])
        rep.ob('sep:%s' % label, 'BYTE-SEP', fn, sp, "%s: subtags are separated by exactly '-' and '_'" % label, ok, detail=detail, how='byte set of the split predicate computed exactly')
    return n


def calls_to(seg, names):
    return [ev for ev in seg.state.events if ev[0] == 'call' and ev[1] in names]


def is_const_err(v, variant):
    while v and v[0] == 'errfrom':
        v = v[1]
    return bool(v) and v[0] == 'adt' and v[2] == variant and not v[3]
