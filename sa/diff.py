"""DIFF — cross-configuration comparison of bodies and items (DESIGN §3.14)."""
import json
import re

DISAMB = re.compile(r'\[[0-9a-f]{4}\]')
DEFID = re.compile(r'DefId\(\d+:\d+ ~ ')


def canon(x):
    if isinstance(x, str):
        return DEFID.sub('DefId(', DISAMB.sub('', x))
    if isinstance(x, list):
        return [canon(y) for y in x]
    if isinstance(x, dict):
        return {k: canon(v) for k, v in x.items()}
    return x


def body_digest(b):
    c = canon({k: b[k] for k in ('kind', 'vis', 'reach', 'sig', 'impl', 'const', 'mir', 'promoted')})
    return json.dumps(c, sort_keys=True)


def first_difference(a, b, path=''):
    """human-readable location of the first difference between two canonical JSON values"""
    if type(a) != type(b):
        return '%s: %s vs %s' % (path, str(a)[:80], str(b)[:80])
    if isinstance(a, dict):
        for k in sorted(set(a) | set(b)):
            if k not in a or k not in b:
                return '%s.%s: present in only one configuration' % (path, k)
            d = first_difference(a[k], b[k], path + '.' + k)
            if d:
                return d
        return None
    if isinstance(a, list):
        if len(a) != len(b):
            return '%s: length %d vs %d' % (path, len(a), len(b))
        for i, (x, y) in enumerate(zip(a, b)):
            d = first_difference(x, y, '%s[%d]' % (path, i))
            if d:
                return d
        return None
    if a != b:
        return '%s: %s vs %s' % (path, str(a)[:100], str(b)[:100])
    return None


def compare_crate(base, feat, exceptions=()):
    """base, feat: sa.facts.Crate of the same crate.  Returns dict with lists of problems."""
    res = {'shared': 0, 'added': [], 'removed': [], 'changed': [], 'excepted': [], 'items': []}
    for n, b in base.bodies.items():
        if n not in feat.bodies:
            res['removed'].append(n)
            continue
        res['shared'] += 1
        if body_digest(b) != body_digest(feat.bodies[n]):
            d = first_difference(canon(b['mir']), canon(feat.bodies[n]['mir']), 'mir') or \
                first_difference(canon({k: b[k] for k in ('kind', 'vis', 'reach', 'sig', 'impl', 'const', 'promoted')}),
                                 canon({k: feat.bodies[n][k] for k in ('kind', 'vis', 'reach', 'sig', 'impl', 'const', 'promoted')}), 'item')
            if n in exceptions:
                res['excepted'].append((n, d))
            else:
                res['changed'].append((n, d, b['span']))
    # a private helper that only the excepted function(s) call is part of the exception (the documented refinement may live in a helper
    # such as `language_direction`); what it computes is decided by the rule that owns the exception (C14's cascade), not here
    if exceptions and res['changed']:
        callers = {}
        for n, b in feat.bodies.items():
            if not b.get('mir'):
                continue
            for blk in b['mir']['blocks']:
                t = blk['term']
                if t['k'] == 'call':
                    callers.setdefault(t.get('r') or t.get('f'), set()).add(n.split('::{closure')[0])
                for m in re.finditer(r"'fn': '([^']+)'", str(blk)):
                    callers.setdefault(m.group(1), set()).add(n.split('::{closure')[0])
        ok = set(exceptions)
        moved = True
        while moved:
            moved = False
            for item in list(res['changed']):
                n = item[0]
                root = n.split('::{closure')[0]
                b = feat.bodies.get(root) or {}
                cs = callers.get(root, set()) - {root}
                if (root in ok) or (not b.get('reach') and cs and cs <= ok):
                    ok.add(root)
                    res['changed'].remove(item)
                    res['excepted'].append((n, item[1]))
                    moved = True
    res['added'] = sorted(n for n in feat.bodies if n not in base.bodies)
    # ADTs: identical field lists
    for n, a in base.adts.items():
        if n not in feat.adts:
            res['items'].append('type %s missing with the feature' % n)
        elif canon(a) != canon(feat.adts[n]):
            res['items'].append('type %s differs: %s' % (n, first_difference(canon(a), canon(feat.adts[n]))))
    # impls on shared types: the base set must be contained, and no impl may change
    def imap(impls):
        m = {}
        for i in impls:
            m.setdefault((canon(i['self_ty']), canon(i['trait']), i['derived']), set()).update(canon(i['items']))
        return m
    bi, fi = imap(base.impls), imap(feat.impls)
    for k, items in sorted(bi.items()):
        if k not in fi:
            res['items'].append('impl %s for %s missing with the feature' % (k[1] or '(inherent)', k[0]))
        elif not items <= fi[k]:
            res['items'].append('impl %s for %s loses items with the feature: %s' % (k[1] or '(inherent)', k[0], sorted(items - fi[k])[:3]))
    res['added_impls'] = sorted((k[0], k[1]) for k in fi if k not in bi)
    # data
    for n, d in base.data.items():
        if n not in feat.data:
            res['items'].append('static/const %s missing with the feature' % n)
        elif canon(d) != canon(feat.data[n]):
            res['items'].append('static/const %s differs' % n)
    # root re-export surface only grows
    def ck(c):
        return (c['name'], canon(c['res']), canon(c['vis']))
    bc = set(ck(c) for c in base.root_children)
    fc = set(ck(c) for c in feat.root_children)
    for k in sorted(bc - fc):
        res['items'].append('crate root item %s (%s) missing or changed with the feature' % (k[0], k[1]))
    res['added_root'] = sorted(k[0] for k in fc - bc)
    return res
