"""TS — collection typestate (DESIGN §3.7).

Lattice  SD (sorted, duplicate-free)  <  S (sorted)  <  U (unknown order), plus a may-be-empty bit.
Two carriers:
  * values of local vectors: PX records every mutating call on a local as ('mut', old, callee, uid, other-args), so the value
    itself carries its history; `of_value` folds that chain;
  * fields of `self` / of objects behind references: PX records call events; `fold_events` folds the events that target the place.
Transitions come from the callee name only (std contract); `insert(i, x)` keeps the state when i is the payload of a
binary_search for x on the same vector with no mutation in between."""
import re
from . import models

SD, S, U, UQ = 0, 1, 2, 3          # UQ: duplicate-free but not (known to be) sorted
NAMES = {SD: 'sorted+unique', S: 'sorted', U: 'unordered', UQ: 'unique, unordered'}


def worse(state, req):
    """does `state` fail the requirement `req` (SD or S)?"""
    if req == SD:
        return state != SD
    if req == S:
        return state not in (SD, S)
    return False

SORTS = ('sort', 'sort_unstable')
KEEP = ('remove', 'pop', 'truncate', 'retain', 'shrink_to_fit', 'shrink_to', 'reserve', 'reserve_exact', 'drain', 'split_off')
EMPTY = ('clear',)
FRESH_EMPTY = ('Vec::new', 'default', 'with_capacity', 'new')


def last(name):
    return name.split('::')[-1]


def is_search(t):
    return isinstance(t, tuple) and t and t[0] == 'call' and re.search(r'::binary_search(_by|_by_key)?$', t[1]) is not None


def is_position(t):
    """iter().position(pred): Some(i) = index of the first element satisfying pred  (also iter().any(pred): the same linear search as a bool)"""
    return isinstance(t, tuple) and t and t[0] == 'call' and re.search(r'Iterator(>)?::(position|any)$', t[1]) is not None and len(t[2]) == 2


def position_parts(px, st, t):
    """(vector place iterated, key) of `vec.iter().position(|e| *e == key)`, or None when the call has another shape"""
    if not is_position(t):
        return None
    snap = t[4] if len(t) > 4 else None
    itv = snap[0] if snap else t[2][0]
    for _ in range(3):
        if itv[0] in ('ref', 'cref'):
            try:
                itv = px.deref_value(st, itv)
            except Exception:
                return None
    if itv[0] != 'sliceiter':
        return None
    owner = models.slice_owner(px, st, itv[1])
    probe = ('ref', ('T', ('POS', 0), ('e', 'pos', 0)))
    try:
        outs = px.call_closure(st.copy(), t[2][1], [probe])
    except Exception:
        return None
    if len(outs) != 1:
        return None
    rv = outs[0][1]
    if not (rv[0] == 'pure' and rv[1] == 'eq' and len(rv[2]) == 2):
        return None

    def val(v):
        for _ in range(6):
            if v[0] in ('ref', 'cref'):
                try:
                    v = px.deref_value(outs[0][0], v)
                except Exception:
                    break
            else:
                break
        return v
    a, b = val(rv[2][0]), val(rv[2][1])
    pv = val(probe)
    # derived PartialEq of a newtype compares the inner fields: `x.0 == y.0` is `x == y`
    for _ in range(4):
        if a[0] == 'fld' and b[0] == 'fld' and a[2] == b[2] and a != pv and b != pv:
            a, b = val(a[1]), val(b[1])
        else:
            break
    if a == pv:
        return owner, b
    if b == pv:
        return owner, a
    return None


def strip_ref(v):
    while isinstance(v, tuple) and v and v[0] in ('ref', 'cref') and isinstance(v[1], tuple):
        v = v[1]
    return v


def search_index(idx):
    """idx term -> (search call term, 'pos'|'neg') if it is the payload of a binary search"""
    if isinstance(idx, tuple) and idx and idx[0] in ('pos', 'neg') and is_search(idx[1]):
        return idx[1], idx[0]
    return None


def apply(state, op, found_only_insert=False):
    if op in SORTS:
        return {SD: SD, S: S, U: S, UQ: SD}[state]
    if op == 'dedup':
        return {SD: SD, S: SD, U: U, UQ: UQ}[state]
    if op in KEEP:
        return state
    if op in EMPTY:
        return SD
    return U


def push_state(state, not_contained):
    """appending one element; `not_contained`: the path established that the collection does not contain it"""
    if not_contained and state in (SD, UQ):
        return UQ
    return U


class Result:
    def __init__(self, state, maybe_empty, why):
        self.state, self.maybe_empty, self.why = state, maybe_empty, why

    def __repr__(self):
        return '%s%s [%s]' % (NAMES[self.state], ' (possibly empty)' if self.maybe_empty else '', ' -> '.join(self.why))


def join(a, b):
    """least upper bound in  SD < S < U,  SD < UQ < U"""
    if a == b:
        return a
    if a == SD:
        return b
    if b == SD:
        return a
    return U


_SUMMARIES = {}


class Summary(Result):
    """what a repository helper (possibly with loops) returns: typestate of the collection over all exits, whether a `Some(..)` /
    plain collection result may be empty, whether it can return None, and which parameter its elements are taken from"""
    def __init__(self, state, maybe_empty, why, some_empty, src_param):
        Result.__init__(self, state, maybe_empty, why)
        self.some_empty, self.src_param = some_empty, src_param


def unwrap_coll(v):
    for _ in range(8):
        if v[0] == 'adt' and v[2] == 'Some' and len(v[3]) == 1:
            v = v[3][0]
        elif v[0] == 'pure' and last(v[1]) in ('into_boxed_slice', 'into_vec', 'into', 'from') and len(v[2]) == 1:
            v = v[2][0]
        elif v[0] == 'cref':
            v = v[1]
        else:
            break
    return v


def chain_base(v):
    while v[0] == 'mut':
        v = v[1]
    return v


def summarize_fn(prog, fn):
    """Summary of the collection a repository function returns, or None when it is not understood (callers fail closed).
    Loop-carried local vectors get an inductive invariant: the typestate established before the loop is assumed at the loop head and
    must be re-established by every iteration (otherwise it is weakened and the check repeated: the lattice is finite)."""
    key = (id(prog), fn)
    if key in _SUMMARIES:
        return _SUMMARIES[key]
    _SUMMARIES[key] = None          # recursion guard
    from . import px as pxm
    b = prog.bodies.get(fn)
    if b is None:
        return None
    e = pxm.PX(prog)
    try:
        segs = e.explore(fn)
    except Exception:
        return None
    if e.unmodelled:
        return None
    mir = b['mir']
    rets = [s for s in segs if s.kind == 'return']
    if not rets:
        return None
    entry_loops = [s for s in segs if s.kind == 'loop' and s.src[0] == 'entry']
    body_loops = [s for s in segs if s.kind == 'loop' and s.src[0] == 'head']

    def assigned_by_statement(l):
        for blk in mir['blocks']:
            for st_ in blk['stmts']:
                if st_['k'] == 'assign' and st_['lhs']['l'] == l and not st_['lhs']['p']:
                    return True
        return False

    hyps = {}

    def hyp_for(l):
        """(entry invariant, loop invariant) of local vector l as (state, maybe_empty) pairs"""
        if l in hyps:
            return hyps[l]
        if assigned_by_statement(l):
            hyps[l] = None
            return None
        he = None
        for s in entry_loops:
            if s.env is None or l not in s.env:
                hyps[l] = None
                return None
            r = of_value(e, s.state, s.env[l], s.facts)
            he = (r.state, r.maybe_empty) if he is None else (join(he[0], r.state), he[1] or r.maybe_empty)
        if he is None:
            hyps[l] = None
            return None
        hl = None
        for _ in range(6):
            cur = he if hl is None else (join(he[0], hl[0]), he[1] or hl[1])
            new = None
            for s in body_loops:
                if s.env is None or l not in s.env:
                    hyps[l] = None
                    return None
                r = of_value(e, s.state, s.env[l], s.facts, hyp={(l,): cur})
                ne = r.maybe_empty
                if ne and found_in(e, s, l):
                    ne = False          # a successful search on the collection: it holds the element
                new = (r.state, ne) if new is None else (join(new[0], r.state), new[1] or ne)
            if new is None or new == hl:
                break
            hl = new if hl is None else (join(hl[0], new[0]), hl[1] or new[1])
        hyps[l] = (he, hl)
        return hyps[l]

    def found_in(e, s, l):
        for k, val in s.facts.items():
            if k[0] == 'tag' and is_search(k[1]) and val == 'pos' and k[1][2]:
                try:
                    if models.vec_place(e, s.state, k[1][2][0]) == ('L', 1, l):
                        return True
                except Exception:
                    pass
        return False

    def zero_iterations_infeasible(s):
        """the exit taken is `for x in <slice>` running out of elements, and the slice is known to be non-empty before the loop"""
        nx = [ev for ev in s.events if ev[0] == 'next']
        if not nx or s.facts.get(('tag', ('has', nx[0][1], nx[0][2]))) != 'neg':
            return False
        it = nx[0][1]
        if it[0] != 'L' or not entry_loops:
            return False
        for es in entry_loops:
            if any(ev[0] in ('next', 'peek') and ev[1] == it for ev in es.events):
                return False
            v = (es.env or {}).get(it[2])
            if v is None:
                return False
            src = None
            if v[0] == 'sliceiter':
                subj = v[1]
            elif v[0] == 'pure' and last(v[1]) in ('into_iter', 'iter') and len(v[2]) == 1:
                try:
                    subj = e.subject_of(es.state, v[2][0])
                except Exception:
                    return False
            else:
                return False
            shp = es.shapes.get(subj)
            if shp is None or 0 in shp.lengths():
                return False
        return True

    def elem_source(s, v, inner=False):
        """parameter index every element of the collection value v comes from (None: not understood)"""
        srcs = set()
        x = unwrap_coll(v)
        while x[0] == 'mut':
            op = last(x[2])
            args = x[4] if len(x) > 4 else ()
            if op in ('push', 'insert') and args:
                el = strip_ref(args[-1])
                if el[0] == 'slice' and el[1][0] == 'T':
                    it = el[1][1]
                    srcs.add(iter_param(it))
                else:
                    srcs.add(None)
            elif op in ('extend', 'extend_from_slice', 'append'):
                ap = terms.access_path(args[0]) if args else None
                srcs.add(ap[0] if ap and not ap[1] else None)
            x = x[1]
        if x[0] == 'pure' and last(x[1]) in ('to_vec', 'to_owned', 'into_vec', 'clone') and len(x[2]) == 1:
            ap = terms.access_path(x[2][0])
            srcs.add(ap[0] if ap and not ap[1] else None)
        elif x[0] == 'lv' and len(x[1]) == 1:
            # loop-carried: elements added by the loop body segments, plus what was there before the loop
            if not inner:
                for ls in body_loops + entry_loops:
                    if ls.env and x[1][0] in ls.env:
                        srcs.add(elem_source(ls, ls.env[x[1][0]], inner=True))
                    else:
                        srcs.add(None)
        elif x[0] == 'pure' and (last(x[1]) in FRESH_EMPTY or x[1] in FRESH_EMPTY):
            pass
        else:
            srcs.add(None)
        srcs.discard('same')
        if len(srcs) == 1:
            return next(iter(srcs))
        if not srcs:
            return 'same'
        return None

    def iter_param(it):
        if it[0] != 'L':
            return None
        for es in entry_loops:
            v = (es.env or {}).get(it[2])
            if v is None:
                return None
            if v[0] == 'sliceiter':
                ap = terms.access_path(('ref', v[1]))
            elif v[0] == 'pure' and last(v[1]) in ('into_iter', 'iter', 'copied', 'cloned') and len(v[2]) == 1:
                inner = v[2][0]
                if inner[0] == 'sliceiter':
                    ap = terms.access_path(('ref', inner[1]))
                else:
                    ap = terms.access_path(inner)
            else:
                return None
            if ap and not ap[1]:
                return ap[0]
        return None

    from . import terms
    state, maybe_empty, some_empty, why = None, False, False, []
    srcs = set()
    for s in rets:
        if s.ret is None:
            return None
        r0 = s.ret
        if r0[0] == 'adt' and r0[2] == 'Err':
            continue
        if r0[0] == 'adt' and r0[2] == 'Ok' and r0[3]:
            r0 = r0[3][0]
        if r0[0] == 'adt' and r0[2] == 'None' and not r0[3]:
            maybe_empty = True
            continue
        v = unwrap_coll(r0)
        base = chain_base(v)
        hyp = None
        if base[0] == 'lv' and len(base[1]) == 1:
            h = hyp_for(base[1][0])
            if h is None:
                return None
            he, hl = h
            if s.src[0] == 'head':
                if hl is not None and zero_iterations_infeasible(s):
                    cur = hl
                elif hl is not None:
                    cur = (join(he[0], hl[0]), he[1] or hl[1])
                else:
                    cur = he
            else:
                cur = he
            hyp = {base[1]: cur}
        elif base[0] in ('lv', 'call', 'init', 'param', 'fld', 'unk'):
            if not (base[0] == 'call' and base[1] in prog.bodies):
                return None
        r = of_value(e, s.state, v, s.state.facts, hyp=hyp)
        state = r.state if state is None else join(state, r.state)
        maybe_empty = maybe_empty or r.maybe_empty
        if r.maybe_empty and not (r0[0] == 'adt' and r0[2] == 'None'):
            some_empty = True
        why = r.why
        srcs.add(elem_source(s, v))
    if state is None:
        return None
    srcs.discard('same')
    sm = Summary(state, maybe_empty, ['%s: %s' % (fn.split('::')[-1], ' -> '.join(why))], some_empty, next(iter(srcs)) if len(srcs) == 1 else None)
    _SUMMARIES[key] = sm
    return sm


def call_summary(px, v):
    """Summary for a value that is the result of a repository helper kept opaque by PX (it has loops), else None"""
    v = unwrap_coll(v)
    if v[0] in ('call', 'ret') and isinstance(v[1], str) and v[1] in px.p.bodies:
        return summarize_fn(px.p, v[1])
    return None


def content_source(px, v):
    """the term the elements of collection value v are copied from (argument of to_vec / of a summarised helper), or None"""
    x = unwrap_coll(v)
    x = chain_base(x)
    for _ in range(6):
        if x[0] == 'pure' and x[2] and last(x[1]) in ('to_vec', 'to_owned', 'into_vec', 'clone'):
            return x[2][0]
        if x[0] == 'pure' and len(x[2]) == 1 and last(x[1]) in ('into_boxed_slice', 'into', 'from'):
            x = chain_base(unwrap_coll(x[2][0]))
            continue
        break
    if x[0] in ('call', 'ret') and isinstance(x[1], str) and x[1] in px.p.bodies:
        sm = summarize_fn(px.p, x[1])
        if sm is not None and isinstance(sm.src_param, int) and sm.src_param - 1 < len(x[2]):
            return x[2][sm.src_param - 1]
    return None


def of_value(px, st, v, facts=None, hyp=None):
    """typestate of a vector-valued term (local history chain); hyp: {loop-local key: (state, maybe_empty)} inductive hypotheses"""
    v0 = v
    for _ in range(8):
        if v[0] == 'adt' and v[2] == 'Some' and len(v[3]) == 1:
            v = v[3][0]
        elif v[0] == 'pure' and last(v[1]) in ('into_boxed_slice', 'into_vec', 'into', 'from') and len(v[2]) == 1:
            v = v[2][0]
        elif v[0] == 'cref':
            v = v[1]
        else:
            break
    if v[0] == 'adt' and v[2] == 'None' and not v[3]:
        return Result(SD, True, ['None'])
    chain = []
    while v[0] == 'mut':
        chain.append(v)
        v = v[1]
    chain.reverse()
    base = v
    why = []
    sm = call_summary(px, base) if base[0] in ('call', 'ret') else None
    if base[0] == 'pure' and (last(base[1]) in FRESH_EMPTY or base[1] in FRESH_EMPTY):
        state, empty = SD, True
        why.append('fresh empty')
    elif hyp and base[0] == 'lv' and base[1] in hyp:
        state, empty = hyp[base[1]]
        why.append('loop invariant: ' + NAMES[state])
    elif sm is not None:
        state, empty = sm.state, sm.maybe_empty
        why.extend(sm.why)
    else:
        state, empty = U, True
        why.append(px.short(base, 60))
        # non-emptiness established by a branch on the base value
        if facts is not None and known_nonempty(px, facts, base):
            empty = False
        elif base[0] == 'pure' and last(base[1]) in ('to_vec', 'to_owned', 'clone', 'into_vec') and len(base[2]) == 1 and st is not None:
            # copy of a slice whose length was tested on this path (shape domain) or whose emptiness was branched on
            src = base[2][0]
            try:
                subj = px.subject_of(st, src)
            except Exception:
                subj = None
            shp = st.shapes.get(subj) if subj is not None else None
            if shp is not None and 0 not in shp.lengths():
                empty = False
            elif facts is not None and known_nonempty(px, facts, strip_ref(src)):
                empty = False
    cur = base
    for m in chain:
        op = last(m[2])
        args = m[4] if len(m) > 4 else ()
        if op == 'insert' and len(args) >= 2:
            si = search_index(args[0])
            ok = False
            if si is not None:
                call, which = si
                snap = call[4] if len(call) > 4 else None
                searched = strip_ref(snap[0]) if snap else None
                key = strip_ref(snap[1]) if snap and len(snap) > 1 else None
                if searched == cur and key == strip_ref(args[1]):
                    ok = True
                    if which == 'pos' and state == SD:
                        state = S          # inserting next to an equal element: duplicates possible
            if not ok:
                state = U
            empty = False
            why.append('insert@search' if ok else 'insert')
        elif op in ('push', 'extend', 'extend_from_slice', 'append'):
            nc = op == 'push' and facts is not None and bool(args) and not_contained_fact(px, facts, lambda x: strip_ref(x) == cur, args[0])
            state = push_state(state, nc) if op == 'push' else U
            if op == 'push':
                empty = False
            why.append(op + ('(absent)' if nc else ''))
        else:
            state = apply(state, op)
            if op in EMPTY or op in ('remove', 'pop', 'truncate', 'retain', 'drain', 'split_off'):
                empty = True
            why.append(op)
        cur = m
        if empty and facts is not None and known_nonempty(px, facts, m):
            empty = False          # the emptiness test was made on the collection as it is after this operation
    return Result(state, empty, why)


def not_contained_fact(px, facts, is_coll, elem):
    """is there a decided fact `contains(collection, &elem) == False` (or a failed binary search for elem) on this path?"""
    e = strip_ref(elem)
    for k, val in facts.items():
        if k[0] == 'pure' and last(k[1]) == 'contains' and len(k[2]) == 2 and val is False:
            if is_coll(k[2][0]) and strip_ref(k[2][1]) == e:
                return True
        if k[0] == 'tag' and is_search(k[1]) and val == 'neg':
            c = k[1]
            snap = c[4] if len(c) > 4 else None
            if snap and is_coll(snap[0]) and strip_ref(snap[1]) == e:
                return True
    return False


def known_nonempty(px, facts, base):
    for k, val in facts.items():
        if k[0] == 'pure' and last(k[1]) == 'is_empty' and len(k[2]) == 1 and strip_ref(k[2][0]) == base and val is False:
            return True
        if k[0] == 'bin' and k[1] == 'Eq' and val is False:
            ops = (k[2], k[3])
            for a, b in (ops, ops[::-1]):
                if a[0] == 'pure' and last(a[1]) == 'len' and strip_ref(a[2][0]) == base and b == ('int', 0):
                    return True
    return False


NOT_OPS = ('deref_mut', 'as_mut', 'borrow_mut')     # obtaining a &mut is not itself a mutation (what is done with it is an event of its own)


def target_place(px, st, ev):
    """canonical place a mutating call event writes through (first argument), or None"""
    if not ev[2]:
        return None
    return models.vec_place(px, st, ev[2][0])


def fold_events(px, st, events, place, init, init_empty=True):
    """typestate of `place` after the events of one path, starting from `init`"""
    state, empty = init, init_empty
    why = [NAMES[init]]
    searches = []     # (call term, index of event)
    for i, ev in enumerate(events):
        if ev[0] == 'store':
            if px.is_prefix(ev[1], place) or px.is_prefix(place, ev[1]):
                r = of_value(px, st, ev[2], st.facts)
                if ev[1] == place:
                    state, empty = r.state, r.maybe_empty
                    why.append('assigned ' + '/'.join(r.why))
                else:
                    state, empty = U, True
                    why.append('overwritten via ' + px.fmt(ev[1]))
            continue
        if ev[0] != 'call':
            continue
        name = ev[1]
        if name in px.p.bodies:
            # a repository function kept opaque (it has loops) that receives `&mut` access to the collection (or to the object holding it):
            # what it does to the order is unknown
            shared = ev[9] if len(ev) > 9 else ()
            for ai, a in enumerate(ev[2]):
                if ai < len(shared) and shared[ai]:
                    continue
                try:
                    pl = models.vec_place(px, st, a) if a[0] in ('ref', 'pure', 'call') else None
                except Exception:
                    pl = None
                if pl is not None and (pl == place or px.is_prefix(pl, place)):
                    state, empty = U, True
                    why.append('passed by &mut to %s' % name.split('::')[-1])
            continue
        if not models.MUTATOR_RE.search(name) and last(name) not in NOT_OPS:
            # any other external function that receives `&mut` access to the collection (Option::as_deref_mut, mem::swap, slice::split_at_mut,
            # a generic helper of another crate ...): what is done through the reference it hands on is not tracked, the order is unknown
            shared = ev[9] if len(ev) > 9 else ()
            for ai, a in enumerate(ev[2]):
                if ai >= len(shared) or shared[ai] or not (isinstance(a, tuple) and a and a[0] == 'ref'):
                    continue
                try:
                    pl = models.vec_place(px, st, a)
                except Exception:
                    pl = None
                if pl is not None and (pl == place or px.is_prefix(pl, place)):
                    state, empty = U, True
                    why.append('mutable access handed to %s' % name.split('::')[-1])
            continue
        if not models.MUTATOR_RE.search(name) or last(name) in NOT_OPS:
            continue
        tp = target_place(px, st, ev)
        if tp != place:
            continue
        op = last(name)
        args = ev[2]
        if op == 'insert' and len(args) >= 3 and ppoint_insert(px, st, events, i, args, place):
            # insert(partition_point(|e| e < x  or  e <= x), x) on a sorted vector keeps it sorted (an equal element may now be repeated)
            if state == SD:
                state = S
            elif state not in (S,):
                state = U
            empty = False
            why.append('insert@partition_point')
        elif op == 'insert' and len(args) >= 3:
            si = search_index(args[1])
            ok = False
            if si is not None:
                call, which = si
                if call[2] and models.vec_place(px, st, call[2][0]) == place and not mutated_between(px, st, events, call, i, place):
                    snap = call[4] if len(call) > 4 else None
                    key = strip_ref(snap[1]) if snap and len(snap) > 1 else None
                    if key is not None and key == strip_ref(args[2]):
                        ok = True
                        if which == 'pos' and state == SD:
                            state = S
            if not ok:
                state = U
            empty = False
            why.append('insert@search' if ok else 'insert')
        elif op in ('push', 'extend', 'extend_from_slice', 'append'):
            def is_coll(x, place=place):
                try:
                    return models.vec_place(px, st, x) == place
                except Exception:
                    return False
            nc = op == 'push' and len(args) >= 2 and not_contained_fact(px, st.facts, is_coll, args[1]) and not any(
                ev2[0] == 'call' and models.MUTATOR_RE.search(ev2[1]) and last(ev2[1]) not in NOT_OPS and ev2[2] and models.vec_place(px, st, ev2[2][0]) == place for ev2 in events[:i])
            state = push_state(state, nc) if op == 'push' else U
            if op == 'push':
                empty = False
            why.append(op + ('(absent)' if nc else ''))
        else:
            state = apply(state, op)
            if op in EMPTY or op in ('remove', 'pop', 'truncate', 'retain', 'drain', 'split_off'):
                empty = True
            why.append(op)
    return Result(state, empty, why)


def ppoint_insert(px, st, events, i, args, place):
    """args = (vec, idx, x) of Vec::insert: idx is slice::partition_point on the same vector (unmodified in between) with a predicate
    `|e| e < x` or `|e| e <= x` for the very x that is inserted"""
    idx = args[1]
    if not (isinstance(idx, tuple) and idx and idx[0] == 'call' and idx[1].endswith('::partition_point') and len(idx[2]) == 2):
        return False
    try:
        if models.vec_place(px, st, idx[2][0]) != place or mutated_between(px, st, events, idx, i, place):
            return False
    except Exception:
        return False
    clos = idx[2][1]
    probe = ('ref', ('T', ('PP', 0), ('e', 'pp', 0)))
    try:
        outs = px.call_closure(st.copy(), clos, [probe])
    except Exception:
        return False
    if len(outs) != 1:
        return False
    rv = outs[0][1]
    if not (rv[0] == 'pure' and re.search(r'::(lt|le)$', rv[1]) and len(rv[2]) == 2):
        return False

    def val(v):
        for _ in range(6):
            if v[0] in ('ref', 'cref'):
                try:
                    v = px.deref_value(outs[0][0], v)
                except Exception:
                    break
            else:
                break
        return v
    a, b = val(rv[2][0]), val(rv[2][1])
    x = val(args[2])
    return a == val(probe) and b == x


def mutated_between(px, st, events, call, upto, place):
    seen = False
    for ev in events[:upto]:
        if ev[0] == 'call' and ev[1] == call[1] and tuple(ev[2]) == tuple(call[2]):
            seen = True
            continue
        if seen and ev[0] == 'call' and models.MUTATOR_RE.search(ev[1]) and ev[2] and models.vec_place(px, st, ev[2][0]) == place:
            return True
        if seen and ev[0] == 'store' and (px.is_prefix(ev[1], place) or px.is_prefix(place, ev[1])):
            return True
    return not seen


def self_mutations(px, st, events, root=('P', ('param', 1))):
    """events that write through `self`: stores below *self and mutating calls whose receiver is below *self"""
    out = []
    for ev in events:
        if ev[0] == 'store' and px.is_prefix(root, ev[1]):
            out.append(ev)
        elif ev[0] == 'call' and ev[1] in px.p.bodies:
            shared = ev[9] if len(ev) > 9 else ()
            for ai, a in enumerate(ev[2]):
                if ai < len(shared) and shared[ai]:
                    continue
                try:
                    tp = models.vec_place(px, st, a) if a[0] in ('ref', 'pure', 'call') else None
                except Exception:
                    tp = None
                if tp is not None and px.is_prefix(root, tp):
                    out.append(ev)
                    break
        elif ev[0] == 'call' and models.MUTATOR_RE.search(ev[1]) and ev[2] and last(ev[1]) not in NOT_OPS:
            tp = models.vec_place(px, st, ev[2][0])
            if tp is not None and px.is_prefix(root, tp):
                out.append(ev)
    return out
