"""TS — collection typestate (DESIGN §3.7).

Lattice  SD (sorted, duplicate-free)  <  S (sorted)  <  U (unknown order), plus a may-be-empty bit.
Two carriers:
  * values of local vectors: PX records every mutating call on a local as ('mut', old, callee, uid, other-args), so the value
    itself carries its history; `of_value` folds that chain;
  * fields of `self` / of objects behind references: PX records call events; `fold_events` folds the events that target the place.
Transitions come from the callee name only (std contract); `insert(i, x)` keeps the state when i is the payload of a
binary_search for x on the same vector with no mutation in between."""
import re
from . import models

SD, S, U, UQ = 0, 1, 2, 3          # UQ: duplicate-free but not (known to be) sorted
NAMES = {SD: 'sorted+unique', S: 'sorted', U: 'unordered', UQ: 'unique, unordered'}


def worse(state, req):
    """does `state` fail the requirement `req` (SD or S)?"""
    if req == SD:
        return state != SD
    if req == S:
        return state not in (SD, S)
    return False

SORTS = ('sort', 'sort_unstable')
KEEP = ('remove', 'pop', 'truncate', 'retain', 'shrink_to_fit', 'shrink_to', 'reserve', 'reserve_exact', 'drain', 'split_off')
EMPTY = ('clear',)
FRESH_EMPTY = ('Vec::new', 'default', 'with_capacity', 'new')


def last(name):
    return name.split('::')[-1]


def is_search(t):
    return isinstance(t, tuple) and t and t[0] == 'call' and re.search(r'::binary_search(_by|_by_key)?$', t[1]) is not None


def strip_ref(v):
    while isinstance(v, tuple) and v and v[0] in ('ref', 'cref') and isinstance(v[1], tuple):
        v = v[1]
    return v


def search_index(idx):
    """idx term -> (search call term, 'pos'|'neg') if it is the payload of a binary search"""
    if isinstance(idx, tuple) and idx and idx[0] in ('pos', 'neg') and is_search(idx[1]):
        return idx[1], idx[0]
    return None


def apply(state, op, found_only_insert=False):
    if op in SORTS:
        return {SD: SD, S: S, U: S, UQ: SD}[state]
    if op == 'dedup':
        return {SD: SD, S: SD, U: U, UQ: UQ}[state]
    if op in KEEP:
        return state
    if op in EMPTY:
        return SD
    return U


def push_state(state, not_contained):
    """appending one element; `not_contained`: the path established that the collection does not contain it"""
    if not_contained and state in (SD, UQ):
        return UQ
    return U


class Result:
    def __init__(self, state, maybe_empty, why):
        self.state, self.maybe_empty, self.why = state, maybe_empty, why

    def __repr__(self):
        return '%s%s [%s]' % (NAMES[self.state], ' (possibly empty)' if self.maybe_empty else '', ' -> '.join(self.why))


def of_value(px, st, v, facts=None):
    """typestate of a vector-valued term (local history chain)"""
    v0 = v
    for _ in range(8):
        if v[0] == 'adt' and v[2] == 'Some' and len(v[3]) == 1:
            v = v[3][0]
        elif v[0] == 'pure' and last(v[1]) in ('into_boxed_slice', 'into_vec', 'into', 'from') and len(v[2]) == 1:
            v = v[2][0]
        elif v[0] == 'cref':
            v = v[1]
        else:
            break
    if v[0] == 'adt' and v[2] == 'None' and not v[3]:
        return Result(SD, True, ['None'])
    chain = []
    while v[0] == 'mut':
        chain.append(v)
        v = v[1]
    chain.reverse()
    base = v
    why = []
    if base[0] == 'pure' and (last(base[1]) in FRESH_EMPTY or base[1] in FRESH_EMPTY):
        state, empty = SD, True
        why.append('fresh empty')
    else:
        state, empty = U, True
        why.append(px.short(base, 60))
        # non-emptiness established by a branch on the base value
        if facts is not None and known_nonempty(px, facts, base):
            empty = False
        elif base[0] == 'pure' and last(base[1]) in ('to_vec', 'to_owned', 'clone', 'into_vec') and len(base[2]) == 1 and st is not None:
            # copy of a slice whose length was tested on this path (shape domain) or whose emptiness was branched on
            src = base[2][0]
            try:
                subj = px.subject_of(st, src)
            except Exception:
                subj = None
            shp = st.shapes.get(subj) if subj is not None else None
            if shp is not None and 0 not in shp.lengths():
                empty = False
            elif facts is not None and known_nonempty(px, facts, strip_ref(src)):
                empty = False
    cur = base
    for m in chain:
        op = last(m[2])
        args = m[4] if len(m) > 4 else ()
        if op == 'insert' and len(args) >= 2:
            si = search_index(args[0])
            ok = False
            if si is not None:
                call, which = si
                snap = call[4] if len(call) > 4 else None
                searched = strip_ref(snap[0]) if snap else None
                key = strip_ref(snap[1]) if snap and len(snap) > 1 else None
                if searched == cur and key == strip_ref(args[1]):
                    ok = True
                    if which == 'pos' and state == SD:
                        state = S          # inserting next to an equal element: duplicates possible
            if not ok:
                state = U
            empty = False
            why.append('insert@search' if ok else 'insert')
        elif op in ('push', 'extend', 'extend_from_slice', 'append'):
            nc = op == 'push' and facts is not None and bool(args) and not_contained_fact(px, facts, lambda x: strip_ref(x) == cur, args[0])
            state = push_state(state, nc) if op == 'push' else U
            if op == 'push':
                empty = False
            why.append(op + ('(absent)' if nc else ''))
        else:
            state = apply(state, op)
            if op in EMPTY or op in ('remove', 'pop', 'truncate', 'retain', 'drain', 'split_off'):
                empty = True
            why.append(op)
        cur = m
    return Result(state, empty, why)


def not_contained_fact(px, facts, is_coll, elem):
    """is there a decided fact `contains(collection, &elem) == False` (or a failed binary search for elem) on this path?"""
    e = strip_ref(elem)
    for k, val in facts.items():
        if k[0] == 'pure' and last(k[1]) == 'contains' and len(k[2]) == 2 and val is False:
            if is_coll(k[2][0]) and strip_ref(k[2][1]) == e:
                return True
        if k[0] == 'tag' and is_search(k[1]) and val == 'neg':
            c = k[1]
            snap = c[4] if len(c) > 4 else None
            if snap and is_coll(snap[0]) and strip_ref(snap[1]) == e:
                return True
    return False


def known_nonempty(px, facts, base):
    for k, val in facts.items():
        if k[0] == 'pure' and last(k[1]) == 'is_empty' and len(k[2]) == 1 and strip_ref(k[2][0]) == base and val is False:
            return True
        if k[0] == 'bin' and k[1] == 'Eq' and val is False:
            ops = (k[2], k[3])
            for a, b in (ops, ops[::-1]):
                if a[0] == 'pure' and last(a[1]) == 'len' and strip_ref(a[2][0]) == base and b == ('int', 0):
                    return True
    return False


NOT_OPS = ('deref_mut', 'as_mut', 'borrow_mut')     # obtaining a &mut is not itself a mutation (what is done with it is an event of its own)


def target_place(px, st, ev):
    """canonical place a mutating call event writes through (first argument), or None"""
    if not ev[2]:
        return None
    return models.vec_place(px, st, ev[2][0])


def fold_events(px, st, events, place, init, init_empty=True):
    """typestate of `place` after the events of one path, starting from `init`"""
    state, empty = init, init_empty
    why = [NAMES[init]]
    searches = []     # (call term, index of event)
    for i, ev in enumerate(events):
        if ev[0] == 'store':
            if px.is_prefix(ev[1], place) or px.is_prefix(place, ev[1]):
                r = of_value(px, st, ev[2], st.facts)
                if ev[1] == place:
                    state, empty = r.state, r.maybe_empty
                    why.append('assigned ' + '/'.join(r.why))
                else:
                    state, empty = U, True
                    why.append('overwritten via ' + px.fmt(ev[1]))
            continue
        if ev[0] != 'call':
            continue
        name = ev[1]
        if not models.MUTATOR_RE.search(name) or last(name) in NOT_OPS:
            continue
        tp = target_place(px, st, ev)
        if tp != place:
            continue
        op = last(name)
        args = ev[2]
        if op == 'insert' and len(args) >= 3:
            si = search_index(args[1])
            ok = False
            if si is not None:
                call, which = si
                if call[2] and models.vec_place(px, st, call[2][0]) == place and not mutated_between(px, st, events, call, i, place):
                    snap = call[4] if len(call) > 4 else None
                    key = strip_ref(snap[1]) if snap and len(snap) > 1 else None
                    if key is not None and key == strip_ref(args[2]):
                        ok = True
                        if which == 'pos' and state == SD:
                            state = S
            if not ok:
                state = U
            empty = False
            why.append('insert@search' if ok else 'insert')
        elif op in ('push', 'extend', 'extend_from_slice', 'append'):
            def is_coll(x, place=place):
                try:
                    return models.vec_place(px, st, x) == place
                except Exception:
                    return False
            nc = op == 'push' and len(args) >= 2 and not_contained_fact(px, st.facts, is_coll, args[1]) and not any(
                ev2[0] == 'call' and models.MUTATOR_RE.search(ev2[1]) and last(ev2[1]) not in NOT_OPS and ev2[2] and models.vec_place(px, st, ev2[2][0]) == place for ev2 in events[:i])
            state = push_state(state, nc) if op == 'push' else U
            if op == 'push':
                empty = False
            why.append(op + ('(absent)' if nc else ''))
        else:
            state = apply(state, op)
            if op in EMPTY or op in ('remove', 'pop', 'truncate', 'retain', 'drain', 'split_off'):
                empty = True
            why.append(op)
    return Result(state, empty, why)


def mutated_between(px, st, events, call, upto, place):
    seen = False
    for ev in events[:upto]:
        if ev[0] == 'call' and ev[1] == call[1] and tuple(ev[2]) == tuple(call[2]):
            seen = True
            continue
        if seen and ev[0] == 'call' and models.MUTATOR_RE.search(ev[1]) and ev[2] and models.vec_place(px, st, ev[2][0]) == place:
            return True
        if seen and ev[0] == 'store' and (px.is_prefix(ev[1], place) or px.is_prefix(place, ev[1])):
            return True
    return not seen


def self_mutations(px, st, events, root=('P', ('param', 1))):
    """events that write through `self`: stores below *self and mutating calls whose receiver is below *self"""
    out = []
    for ev in events:
        if ev[0] == 'store' and px.is_prefix(root, ev[1]):
            out.append(ev)
        elif ev[0] == 'call' and models.MUTATOR_RE.search(ev[1]) and ev[2] and last(ev[1]) not in NOT_OPS:
            tp = models.vec_place(px, st, ev[2][0])
            if tp is not None and px.is_prefix(root, tp):
                out.append(ev)
    return out
